"""E0 -- program model: modules, name resolution, classes, functions.

Pure ``ast``; the target package is never imported.
"""
from __future__ import annotations

import ast
import os
from typing import Dict, Iterator, List, Optional, Tuple

PKG = "Geometry3D"

# Files every property is anchored in; a vanished anchor is an analysis error.
ANCHOR_FILES = [
    "Geometry3D/calc/intersection.py",
    "Geometry3D/calc/aux_calc.py",
    "Geometry3D/calc/distance.py",
    "Geometry3D/calc/angle.py",
    "Geometry3D/calc/acute.py",
    "Geometry3D/calc/volume.py",
    "Geometry3D/geometry/body.py",
    "Geometry3D/geometry/point.py",
    "Geometry3D/geometry/line.py",
    "Geometry3D/geometry/plane.py",
    "Geometry3D/geometry/segment.py",
    "Geometry3D/geometry/halfline.py",
    "Geometry3D/geometry/polygon.py",
    "Geometry3D/geometry/polyhedron.py",
    "Geometry3D/geometry/pyramid.py",
    "Geometry3D/utils/vector.py",
    "Geometry3D/utils/util.py",
    "Geometry3D/utils/constant.py",
    "Geometry3D/utils/solver.py",
    "Geometry3D/utils/logger.py",
]

GEOM7 = ["Point", "Line", "Plane", "Segment", "HalfLine", "ConvexPolygon", "ConvexPolyhedron"]


class AnalysisError(Exception):
    """The analyser cannot decide (fail closed): exit code 2, never a VIOLATION."""


def loc(mod: "Module", node: ast.AST) -> str:
    return "%s:%d" % (mod.relpath, getattr(node, "lineno", 0))


def norm_text(node: ast.AST) -> str:
    """Normalised statement text used as a position-independent key."""
    try:
        return " ".join(ast.unparse(node).split())
    except Exception:  # pragma: no cover
        return type(node).__name__


class Binding:
    __slots__ = ("kind", "target", "bound_cls", "name", "module")

    def __init__(self, kind, target, name=None, module=None, bound_cls=None):
        self.kind = kind  # func | class | module | ext | var
        self.target = target
        self.name = name
        self.module = module
        self.bound_cls = bound_cls

    def __repr__(self):
        return "Binding(%s,%r)" % (self.kind, getattr(self.target, "qual", self.target))


class FunctionInfo:
    def __init__(self, module: "Module", node: ast.FunctionDef, cls: Optional["ClassInfo"]):
        self.module = module
        self.node = node
        self.cls = cls
        self.name = node.name
        self.short = (cls.name + "." + node.name) if cls else node.name
        self.qual = module.name + ":" + self.short
        a = node.args
        self.params: List[str] = [x.arg for x in a.posonlyargs + a.args]
        self.vararg: Optional[str] = a.vararg.arg if a.vararg else None
        self.kwarg: Optional[str] = a.kwarg.arg if a.kwarg else None
        self.kwonly: List[str] = [x.arg for x in a.kwonlyargs]
        self.defaults = a.defaults
        self.decorators = [norm_text(d) for d in node.decorator_list]
        self.is_classmethod = "classmethod" in self.decorators
        self.memoized = any(_is_memo_decorator(d) for d in self.decorators)
        self.is_generator = any(
            isinstance(n, (ast.Yield, ast.YieldFrom)) for n in walk_local(node)
        )
        self._local_imports: Optional[Dict[str, Binding]] = None

    # ---- name resolution inside the function
    def local_imports(self) -> Dict[str, Binding]:
        if self._local_imports is None:
            d: Dict[str, Binding] = {}
            for n in walk_local(self.node):
                if isinstance(n, (ast.Import, ast.ImportFrom)):
                    d.update(self.module._bindings_of_import(n))
            self._local_imports = d
        return self._local_imports

    def resolve(self, name: str) -> Optional[Binding]:
        li = self.local_imports()
        if name in li:
            return li[name]
        return self.module.resolve(name)

    @property
    def self_name(self) -> Optional[str]:
        if self.cls is not None and self.params:
            return self.params[0]
        return None

    def where(self, node: Optional[ast.AST] = None) -> str:
        return "%s:%d" % (self.module.relpath, getattr(node or self.node, "lineno", 0))

    def __repr__(self):
        return "<fn %s>" % self.qual


MEMO_NAMES = ("lru_cache", "cache", "cached_property", "memoize", "memoized")


def _is_memo_decorator(d: str) -> bool:
    head = d.split("(")[0]
    return head.split(".")[-1] in MEMO_NAMES


def walk_local(fn_node: ast.AST) -> Iterator[ast.AST]:
    """ast.walk that does not descend into nested defs / lambdas / classes."""
    todo = list(ast.iter_child_nodes(fn_node))
    while todo:
        n = todo.pop()
        yield n
        if isinstance(n, (ast.FunctionDef, ast.AsyncFunctionDef, ast.ClassDef, ast.Lambda)):
            continue
        todo.extend(ast.iter_child_nodes(n))


class ClassInfo:
    def __init__(self, module: "Module", node: ast.ClassDef):
        self.module = module
        self.node = node
        self.name = node.name
        self.qual = module.name + ":" + node.name
        self.methods: Dict[str, FunctionInfo] = {}
        self.attrs: Dict[str, ast.AST] = {}  # class-level assignments (value nodes)
        self.method_aliases: Dict[str, str] = {}
        self.base_names = [norm_text(b) for b in node.bases]
        self.copy_hooks: Dict[str, FunctionInfo] = {}
        for st in node.body:
            if isinstance(st, ast.FunctionDef) and st.name in ("__deepcopy__", "__copy__"):
                # a deep-copy hook is not part of the analysed program: copy.deepcopy(x) is modelled as the structural deep
                # copy, and C20 R20.4 verifies that the hook is one (every field deep-copied, or immutable, or a fresh
                # container of immutable elements); a hook it cannot verify stops the analysis
                self.copy_hooks[st.name] = FunctionInfo(module, st, self)
            elif isinstance(st, ast.FunctionDef):
                self.methods[st.name] = FunctionInfo(module, st, self)
            elif isinstance(st, ast.Assign):
                for t in st.targets:
                    if isinstance(t, ast.Name):
                        if isinstance(st.value, ast.Name) and st.value.id in self.methods:
                            self.method_aliases[t.id] = st.value.id
                        else:
                            self.attrs[t.id] = st.value
            elif isinstance(st, ast.AnnAssign) and isinstance(st.target, ast.Name) and st.value is not None:
                self.attrs[st.target.id] = st.value

    def bases(self) -> List["ClassInfo"]:
        out = []
        for b in self.base_names:
            if b == "object":
                continue
            bd = self.module.resolve(b)
            if bd is not None and bd.kind == "class":
                out.append(bd.target)
            else:
                raise AnalysisError("unresolved base class %s of %s" % (b, self.qual))
        return out

    def mro(self) -> List["ClassInfo"]:
        out = [self]
        bs = self.bases()
        if len(bs) > 1:
            raise AnalysisError("multiple inheritance in %s is not modelled" % self.qual)
        for b in bs:
            out.extend(b.mro())
        return out

    def lookup(self, name: str) -> Optional[FunctionInfo]:
        for c in self.mro():
            if name in c.methods:
                return c.methods[name]
            if name in c.method_aliases:
                return c.methods[c.method_aliases[name]]
        return None

    def defines(self, name: str) -> bool:
        return name in self.methods or name in self.method_aliases

    def class_attr(self, name: str) -> Optional[ast.AST]:
        for c in self.mro():
            if name in c.attrs:
                return c.attrs[name]
        return None

    def is_subclass_of(self, other: "ClassInfo") -> bool:
        return other in self.mro()

    def __repr__(self):
        return "<class %s>" % self.qual


class Module:
    def __init__(self, repo: "Repo", name: str, path: str, is_pkg: bool):
        self.repo = repo
        self.name = name
        self.path = path
        self.relpath = os.path.relpath(path, repo.root)
        self.is_pkg = is_pkg
        with open(path, "r", encoding="utf-8") as f:
            self.src = f.read()
        try:
            from .desugar import desugar
            self.tree = desugar(ast.parse(self.src, filename=path))
        except SyntaxError as e:
            raise AnalysisError("cannot parse %s: %s" % (self.relpath, e))
        self.functions: Dict[str, FunctionInfo] = {}
        self.classes: Dict[str, ClassInfo] = {}
        self.assigns: Dict[str, List[ast.AST]] = {}  # module-level name -> value nodes
        self.imports: List[ast.AST] = []
        self.all: Optional[Tuple[str, ...]] = None
        self._resolving: set = set()
        self._cache: Dict[str, Optional[Binding]] = {}
        self._scan(self.tree.body)

    def _scan(self, body):
        for st in body:
            if isinstance(st, ast.FunctionDef):
                self.functions[st.name] = FunctionInfo(self, st, None)
            elif isinstance(st, ast.ClassDef):
                self.classes[st.name] = ClassInfo(self, st)
            elif isinstance(st, (ast.Import, ast.ImportFrom)):
                self.imports.append(st)
            elif isinstance(st, ast.Assign):
                for t in st.targets:
                    if isinstance(t, ast.Name):
                        self.assigns.setdefault(t.id, []).append(st.value)
                        if t.id == "__all__":
                            try:
                                self.all = tuple(ast.literal_eval(st.value))
                            except Exception:
                                raise AnalysisError("non-literal __all__ in %s" % self.relpath)
            elif isinstance(st, ast.Try):
                # visualizer.py guards optional back-end imports
                self._scan(st.body)
                for h in st.handlers:
                    self._scan(h.body)
                self._scan(st.orelse)
                self._scan(st.finalbody)
            elif isinstance(st, ast.If):
                self._scan(st.body)
                self._scan(st.orelse)

    # ---- imports
    def _abs_module(self, node: ast.ImportFrom) -> str:
        parts = self.name.split(".")
        pkg = parts if self.is_pkg else parts[:-1]
        if node.level:
            base = pkg[: len(pkg) - (node.level - 1)]
        else:
            base = []
        if node.module:
            base = base + node.module.split(".")
        return ".".join(base)

    def _bindings_of_import(self, node) -> Dict[str, Binding]:
        out: Dict[str, Binding] = {}
        if isinstance(node, ast.Import):
            for al in node.names:
                nm = al.asname or al.name.split(".")[0]
                tgt = al.name if al.asname else al.name.split(".")[0]
                if tgt in self.repo.modules:
                    out[nm] = Binding("module", self.repo.modules[tgt], name=nm)
                else:
                    out[nm] = Binding("ext", tgt, name=nm)
            return out
        absname = self._abs_module(node)
        tgt_mod = self.repo.modules.get(absname)
        for al in node.names:
            if al.name == "*":
                if tgt_mod is None:
                    raise AnalysisError("star import from external module %s in %s" % (absname, self.relpath))
                for nm in tgt_mod.public_names():
                    b = tgt_mod.resolve(nm)
                    if b is None:
                        raise AnalysisError("%s exports unknown name %s" % (tgt_mod.relpath, nm))
                    out[nm] = b
                continue
            nm = al.asname or al.name
            if tgt_mod is None:
                sub = absname + "." + al.name
                if sub in self.repo.modules:
                    out[nm] = Binding("module", self.repo.modules[sub], name=nm)
                elif absname.split(".")[0] == PKG:
                    raise AnalysisError("import from missing module %s in %s" % (absname, self.relpath))
                else:
                    out[nm] = Binding("ext", absname + "." + al.name, name=nm)
                continue
            sub = absname + "." + al.name
            b = tgt_mod.resolve(al.name)
            if b is None and sub in self.repo.modules:
                b = Binding("module", self.repo.modules[sub], name=nm)
            if b is None:
                raise AnalysisError(
                    "%s: cannot resolve 'from %s import %s'" % (loc(self, node), absname, al.name)
                )
            out[nm] = b
        return out

    def public_names(self) -> List[str]:
        if self.all is not None:
            return list(self.all)
        names = [n for n in list(self.functions) + list(self.classes) + list(self.assigns) if not n.startswith("_")]
        for imp in self.imports:
            for nm in self._bindings_of_import(imp):
                if not nm.startswith("_"):
                    names.append(nm)
        return names

    def resolve(self, name: str) -> Optional[Binding]:
        if name in self._cache:
            return self._cache[name]
        if name in self._resolving:
            return None
        self._resolving.add(name)
        try:
            b = self._resolve(name)
        finally:
            self._resolving.discard(name)
        self._cache[name] = b
        return b

    def _resolve(self, name: str) -> Optional[Binding]:
        if name in self.functions:
            return Binding("func", self.functions[name], name=name, module=self)
        if name in self.classes:
            return Binding("class", self.classes[name], name=name, module=self)
        if name in self.assigns:
            vals = self.assigns[name]
            v = vals[-1]
            # alias of a classmethod / function:  Circle = ConvexPolygon.Circle
            if isinstance(v, ast.Attribute) and isinstance(v.value, ast.Name):
                base = self.resolve(v.value.id)
                if base is not None and base.kind == "class":
                    m = base.target.lookup(v.attr)
                    if m is not None:
                        return Binding("func", m, name=name, module=self, bound_cls=base.target)
            if isinstance(v, ast.Name):
                b = self.resolve(v.id)
                if b is not None and b.kind in ("func", "class"):
                    return b
            return Binding("var", (self, name, vals), name=name, module=self)
        # imports (last one wins, as at run time)
        found = None
        for imp in self.imports:
            if isinstance(imp, ast.ImportFrom) and any(al.name == "*" for al in imp.names):
                absname = self._abs_module(imp)
                tm = self.repo.modules.get(absname)
                if tm is not None and name in tm.public_names():
                    b = tm.resolve(name)
                    if b is not None:
                        found = b
                continue
            for al in imp.names:
                nm = al.asname or (al.name.split(".")[0] if isinstance(imp, ast.Import) else al.name)
                if nm == name:
                    found = self._bindings_of_import(_single(imp, al))[name]
        return found


def _single(imp, al):
    if isinstance(imp, ast.Import):
        n = ast.Import(names=[al])
    else:
        n = ast.ImportFrom(module=imp.module, names=[al], level=imp.level)
    ast.copy_location(n, imp)
    return n


# Dynamic features that would invalidate the model (assumption A2); each known,
# modelled instance is listed with the reason it is understood.
DYNAMIC_NAMES = {
    "setattr", "getattr", "delattr", "eval", "exec", "globals", "locals", "vars",
    "__import__", "compile",
}
DYNAMIC_ATTRS = {"__dict__", "__class__", "__bases__", "__subclasses__"}
DYNAMIC_DEFS = {"__getattr__", "__setattr__", "__getattribute__", "__delattr__", "__set__", "__get__",
                "__init_subclass__", "__class_getitem__", "__new__"}
KNOWN_DYNAMIC = {
    # (function short name, construct) -> modelling
    ("Point.__setitem__", "setattr"): "setattr(self, 'xyz'[item], value) = write to self.x|y|z",
}
ALLOWED_DECORATORS = {"classmethod", "property"}  # property: read-only getters (E1 / E3 evaluate the getter at the attribute read)


class Repo:
    def __init__(self, root: str = "/repo", require_anchors: bool = True):
        self.root = os.path.abspath(root)
        self.pkgdir = os.path.join(self.root, PKG)
        if not os.path.isdir(self.pkgdir):
            raise AnalysisError("package directory %s not found" % self.pkgdir)
        self.modules: Dict[str, Module] = {}
        paths = []
        for dp, dn, fn in os.walk(self.pkgdir):
            dn[:] = sorted(d for d in dn if d != "__pycache__")
            for f in sorted(fn):
                if f.endswith(".py"):
                    paths.append(os.path.join(dp, f))
        if require_anchors:
            for a in ANCHOR_FILES:
                if not os.path.isfile(os.path.join(self.root, a)):
                    raise AnalysisError("anchor file %s is missing" % a)
        for p in paths:
            rel = os.path.relpath(p, self.root)[:-3]
            parts = rel.split(os.sep)
            is_pkg = parts[-1] == "__init__"
            if is_pkg:
                parts = parts[:-1]
            name = ".".join(parts)
            # two-phase: register names first so imports can be resolved lazily
            self.modules[name] = None  # type: ignore
        for p in paths:
            rel = os.path.relpath(p, self.root)[:-3]
            parts = rel.split(os.sep)
            is_pkg = parts[-1] == "__init__"
            if is_pkg:
                parts = parts[:-1]
            name = ".".join(parts)
            self.modules[name] = Module(self, name, p, is_pkg)
        self._inline_named_constants()
        self._inline_class_tuples()
        self._inline_type_flags()
        self._positional_calls()
        self._inline_private_helpers()
        self._flatten_genexp_loops()
        self._unroll_literal_loops()
        self._inline_field_aliases()
        self._short_index: Dict[str, List[FunctionInfo]] = {}
        for fi in self.functions():
            self._short_index.setdefault(fi.short, []).append(fi)
        self._class_index: Dict[str, List[ClassInfo]] = {}
        for m in self.modules.values():
            for c in m.classes.values():
                self._class_index.setdefault(c.name, []).append(c)
        self.dynamic_inventory = self._dynamic_inventory()

    def _inline_type_flags(self):
        """`is_point = isinstance(a, Point)` ... `if is_point and isinstance(b, Point):` -- a local bound ONCE to a type test
        (`isinstance(x, T)`, `x is None`, `x is not None`, or `not` of one) of a plain name x that is not re-bound afterwards is
        read as the test itself where it is used, so that the type inference narrows x in the branch as it does for the
        test written in place."""
        import copy
        for fi in self.functions(include_visualization=False):
            stores = {}
            for n in ast.walk(fi.node):
                if isinstance(n, ast.Name) and isinstance(n.ctx, (ast.Store, ast.Del)):
                    stores.setdefault(n.id, []).append(n)
            flags = {}
            for st in ast.walk(fi.node):
                if not (isinstance(st, ast.Assign) and len(st.targets) == 1 and isinstance(st.targets[0], ast.Name)):
                    continue
                nm = st.targets[0].id
                if len(stores.get(nm, [])) != 1 or nm in fi.params:
                    continue
                v = st.value
                core = v.operand if isinstance(v, ast.UnaryOp) and isinstance(v.op, ast.Not) else v
                subj = None
                if isinstance(core, ast.Call) and isinstance(core.func, ast.Name) and core.func.id == "isinstance" and len(core.args) == 2 \
                        and isinstance(core.args[0], ast.Name) and not core.keywords:
                    subj = core.args[0].id
                elif isinstance(core, ast.Compare) and len(core.ops) == 1 and isinstance(core.ops[0], (ast.Is, ast.IsNot)) \
                        and isinstance(core.left, ast.Name) and isinstance(core.comparators[0], ast.Constant) and core.comparators[0].value is None:
                    subj = core.left.id
                if subj is None:
                    continue
                # the tested name must not be re-bound after the flag is set (positions in the source)
                pos = (st.lineno, st.col_offset)
                if any((x.lineno, x.col_offset) > pos for x in stores.get(subj, [])):
                    continue
                # ... and the flag is not set inside a loop (one evaluation per use would differ)
                flags[nm] = (v, pos)
            if not flags:
                continue

            class Sub(ast.NodeTransformer):
                def visit_Name(self, n):
                    f = flags.get(n.id)
                    if f is not None and isinstance(n.ctx, ast.Load) and (n.lineno, n.col_offset) > f[1]:
                        return ast.copy_location(copy.deepcopy(f[0]), n)
                    return n
            in_loop = set()
            for lp in ast.walk(fi.node):
                if isinstance(lp, (ast.For, ast.While)):
                    for x in ast.walk(lp):
                        if isinstance(x, ast.Assign) and len(x.targets) == 1 and isinstance(x.targets[0], ast.Name) and x.targets[0].id in flags:
                            in_loop.add(x.targets[0].id)
            for nm in in_loop:
                flags.pop(nm, None)
            if flags:
                Sub().visit(fi.node)
                ast.fix_missing_locations(fi.node)

    def _inline_class_tuples(self):
        """`isinstance(x, _GEO_TYPES)` with  _GEO_TYPES = (Point, Line, ...)  bound once at module level (never re-bound) is read as
        `isinstance(x, (Point, Line, ...))`, also when the name is imported from another module of the package and every class
        name means the same class at the place of use."""
        import copy
        for fi in self.functions(include_visualization=False):
            for c in ast.walk(fi.node):
                if not (isinstance(c, ast.Call) and isinstance(c.func, ast.Name) and c.func.id in ("isinstance", "issubclass") and len(c.args) == 2
                        and isinstance(c.args[1], ast.Name)):
                    continue
                nm = c.args[1].id
                if any(isinstance(x, ast.Name) and x.id == nm and isinstance(x.ctx, (ast.Store, ast.Del)) for x in ast.walk(fi.node)) or nm in fi.params:
                    continue
                b = fi.resolve(nm)
                if b is None or b.kind != "var":
                    continue
                mod, name = b.target[0], b.target[1]
                vals = mod.assigns.get(name, [])
                if len(vals) != 1 or not isinstance(vals[0], ast.Tuple) or not vals[0].elts \
                        or not all(isinstance(e, ast.Name) for e in vals[0].elts):
                    continue
                if any(isinstance(n, ast.Global) and name in n.names for n in ast.walk(mod.tree)):
                    continue
                ok = True
                for e in vals[0].elts:
                    bm, bc = mod.resolve(e.id), fi.resolve(e.id)
                    if bm is None or bm.kind != "class" or bc is None or bc.kind != "class" or bm.target is not bc.target:
                        ok = False
                if ok:
                    c.args[1] = ast.copy_location(copy.deepcopy(vals[0]), c.args[1])
            ast.fix_missing_locations(fi.node)

    def _inline_named_constants(self):
        """module-level names bound ONCE to a numeric constant expression and never re-bound (no `global` in any function
        of their module) are read as their value inside functions -- `HALF_PI`, `ONE_THIRD`, `MIN_POLYGON_POINTS`, also when
        imported from another module of the package.  (The tolerance globals are re-bound by their setters and stay names.)"""
        from .astutil_consts import const_value
        consts: Dict[Tuple[str, str], object] = {}
        for m in self.modules.values():
            rebound = set()
            for n in ast.walk(m.tree):
                if isinstance(n, ast.Global):
                    rebound |= set(n.names)
            for name, vals in m.assigns.items():
                if len(vals) == 1 and name not in rebound and name not in m.functions and name not in m.classes:
                    v = const_value(vals[0])
                    if v is not None:
                        consts[(m.name, name)] = v
        if not consts:
            return

        repo = self

        class R(ast.NodeTransformer):
            def __init__(self, fi):
                self.fi = fi
                self.locals = set(fi.params) | {x.id for x in ast.walk(fi.node) if isinstance(x, ast.Name) and isinstance(x.ctx, ast.Store)}

            def visit_Name(self, n):
                if isinstance(n.ctx, ast.Load) and n.id not in self.locals:
                    b = self.fi.resolve(n.id)
                    if b is not None and b.kind == "var":
                        key = (b.target[0].name, b.target[1])
                        if key in consts:
                            return ast.copy_location(ast.Constant(value=consts[key]), n)
                return n

        for fi in list(self.functions()):
            for i, st in enumerate(fi.node.body):
                fi.node.body[i] = R(fi).visit(st)
            ast.fix_missing_locations(fi.node)

    def _inline_private_helpers(self):
        """Calls of small PRIVATE module-level helpers (`_name`) are read as the helper's body at the call site -- the inverse
        of "extract function", the most common refactoring there is.  Exact under the conditions checked here:
          * the helper is a plain module-level function of the package (no generator, no decorator, no *args / **kwargs, no
            nested function, no `global`), not recursive (directly or through other inlined helpers), at most 40 statements;
          * EXPRESSION helpers (straight-line `x = e` statements and one final `return e`) are inlined wherever they are
            called with positional arguments; STATEMENT helpers (any control flow, `raise` anywhere, but `return` only as the
            last top-level statement, or not at all) are inlined where the call is a whole statement: `f(..)`,
            `x = f(..)`, `x, y = f(..)`, `return f(..)`;
          * parameters are replaced by the argument when the argument is a name / constant / attribute chain of a name and
            the parameter is never assigned in the helper, otherwise the argument is bound to a fresh local first
            (evaluation order and aliasing as in a call); the helper's locals get fresh names.
        The helpers stay defined (they may also be passed around by name).  Diagnostics inside inlined code carry the
        helper's own line numbers when it lives in the caller's module, the call's line otherwise."""
        import copy
        cands: Dict[str, FunctionInfo] = {}
        for m in self.core_modules():
            for f in m.functions.values():
                n = f.node
                if not f.name.startswith("_") or f.name.startswith("__") or f.is_generator or n.decorator_list:
                    continue
                a = n.args
                if a.vararg or a.kwarg or a.kwonlyargs or a.posonlyargs:
                    continue
                if any(isinstance(x, (ast.FunctionDef, ast.AsyncFunctionDef, ast.Lambda, ast.ClassDef, ast.Global, ast.Nonlocal,
                                      ast.Yield, ast.YieldFrom, ast.Await, ast.Try, ast.With))
                       for x in ast.walk(n) if x is not n):
                    continue
                body = [s_ for s_ in n.body if not (isinstance(s_, ast.Expr) and isinstance(s_.value, ast.Constant))]
                if not body or sum(1 for _ in ast.walk(n) if isinstance(_, ast.stmt)) > 40:
                    continue
                rets = [x for x in ast.walk(n) if isinstance(x, ast.Return)]
                if any(r is not body[-1] for r in rets):
                    # early returns inside if / else nests are expressible (single-exit form, see _single_exit); returns inside
                    # loops are not
                    if any(isinstance(x, (ast.For, ast.While)) and any(isinstance(y, ast.Return) for y in ast.walk(x)) for x in ast.walk(n)):
                        continue
                    if sum(1 for x in ast.walk(n) if isinstance(x, ast.If) and any(isinstance(y, ast.Return) for y in ast.walk(x))) > 5:
                        continue
                # free names must mean the same at the call site: resolved per call site below
                cands[f.qual] = f
        # private instance methods (`self._on_carrier(p)`, `other._lies_in(self)`): the inverse of "extract method".  A call
        # is read as the method's body when the method meant is known without type inference: the name is defined by one
        # class only, or the receiver is `self` and the caller's own class defines it (and no subclass overrides it).
        by_method: Dict[str, List[FunctionInfo]] = {}
        all_defs: Dict[str, int] = {}
        for m in self.core_modules():
            for c_ in m.classes.values():
                for f in c_.methods.values():
                    all_defs[f.name] = all_defs.get(f.name, 0) + 1
                    n = f.node
                    if not f.name.startswith("_") or f.name.startswith("__") or f.is_generator or n.decorator_list or f.self_name is None:
                        continue
                    a = n.args
                    if a.vararg or a.kwarg or a.kwonlyargs or a.posonlyargs:
                        continue
                    if any(isinstance(x, (ast.FunctionDef, ast.AsyncFunctionDef, ast.Lambda, ast.ClassDef, ast.Global, ast.Nonlocal,
                                          ast.Yield, ast.YieldFrom, ast.Await, ast.Try, ast.With))
                           for x in ast.walk(n) if x is not n):
                        continue
                    if any(isinstance(x, ast.Call) and isinstance(x.func, ast.Name) and x.func.id == "super" for x in ast.walk(n)):
                        continue
                    body = [s_ for s_ in n.body if not (isinstance(s_, ast.Expr) and isinstance(s_.value, ast.Constant))]
                    if not body or sum(1 for _ in ast.walk(n) if isinstance(_, ast.stmt)) > 40:
                        continue
                    rets = [x for x in ast.walk(n) if isinstance(x, ast.Return)]
                    if any(r is not body[-1] for r in rets):
                        if any(isinstance(x, (ast.For, ast.While)) and any(isinstance(y, ast.Return) for y in ast.walk(x)) for x in ast.walk(n)):
                            continue
                        if sum(1 for x in ast.walk(n) if isinstance(x, ast.If) and any(isinstance(y, ast.Return) for y in ast.walk(x))) > 5:
                            continue
                    # methods that store into fields stay method calls (validation / effect rules are keyed by the method) -- except
                    # plain setters: a few straight-line statements without control flow (`self.line = Line(a, b)`)
                    if any(isinstance(x, ast.Attribute) and isinstance(x.ctx, (ast.Store, ast.Del)) for x in ast.walk(n)):
                        if len(body) > 4 or any(isinstance(x, (ast.If, ast.For, ast.While, ast.Raise, ast.Return, ast.Assert)) for x in ast.walk(n)):
                            continue
                    cands[f.qual] = f
                    by_method.setdefault(f.name, []).append(f)

        def method_meant(caller: FunctionInfo, c) -> Optional[FunctionInfo]:
            name, recv = c.func.attr, c.func.value.id
            lst = by_method.get(name)
            if not lst:
                return None
            if len(lst) == 1 and all_defs.get(name) == 1:
                return lst[0]
            if recv == caller.self_name and caller.cls is not None:
                m_ = caller.cls.methods.get(name)
                if m_ is not None and m_.qual in cands:
                    for mod_ in self.core_modules():
                        for c2 in mod_.classes.values():
                            if c2 is not caller.cls and caller.cls in c2.mro() and name in c2.methods:
                                return None
                    return m_
            return None

        def callees(f: FunctionInfo) -> Set[str]:
            out = set()
            for c in ast.walk(f.node):
                if isinstance(c, ast.Call) and isinstance(c.func, ast.Name):
                    b = f.resolve(c.func.id)
                    if b is not None and b.kind == "func" and b.target.qual in cands:
                        out.add(b.target.qual)
                elif isinstance(c, ast.Call) and isinstance(c.func, ast.Attribute) and c.func.attr in by_method:
                    out |= {m_.qual for m_ in by_method[c.func.attr]}
            return out
        # drop helpers on a call cycle
        graph = {q: callees(f) for q, f in cands.items()}
        changed = True
        while changed:
            changed = False
            for q in list(cands):
                seen, todo = set(), list(graph[q])
                while todo:
                    x = todo.pop()
                    if x == q:
                        del cands[q]
                        changed = True
                        break
                    if x not in seen and x in graph:
                        seen.add(x)
                        todo.extend(graph[x])
                if changed:
                    graph = {k: v & set(cands) for k, v in graph.items() if k in cands}
                    break
        if not cands:
            return
        counter = [0]

        def simple_arg(a) -> bool:
            """an argument that may be written out once per use of the parameter: reading it has no effect and costs
            nothing observable (names, constants, attribute chains, indexing, arithmetic, len())"""
            if isinstance(a, (ast.Name, ast.Constant)):
                return True
            if isinstance(a, ast.Attribute):
                return simple_arg(a.value)
            if isinstance(a, ast.Subscript):
                return simple_arg(a.value) and simple_arg(a.slice)
            if isinstance(a, ast.BinOp):
                return simple_arg(a.left) and simple_arg(a.right)
            if isinstance(a, ast.UnaryOp):
                return simple_arg(a.operand)
            if isinstance(a, ast.Tuple):
                return all(simple_arg(x) for x in a.elts)
            if isinstance(a, ast.Call) and isinstance(a.func, ast.Name) and a.func.id == "len" and len(a.args) == 1 and not a.keywords:
                return simple_arg(a.args[0])
            return False

        def body_of(h: FunctionInfo):
            return [s_ for s_ in h.node.body if not (isinstance(s_, ast.Expr) and isinstance(s_.value, ast.Constant))]

        def is_expression_helper(h: FunctionInfo) -> bool:
            b = body_of(h)
            return isinstance(b[-1], ast.Return) and b[-1].value is not None and all(
                isinstance(x, ast.Assign) and len(x.targets) == 1 and isinstance(x.targets[0], ast.Name) for x in b[:-1])

        def same_bindings(caller: FunctionInfo, h: FunctionInfo):
            """{name: alias} for the free names of the helper (module-level functions, classes, constants, imports) that do
            NOT mean the same thing in the caller's module: the inlined copy refers to them through an alias that is bound,
            in the caller's module, to the helper's own binding.  None when a free name cannot be resolved at all."""
            import builtins as _b
            local = set(h.params) | {x.id for x in ast.walk(h.node) if isinstance(x, ast.Name) and isinstance(x.ctx, ast.Store)}
            alias: Dict[str, str] = {}
            for x in ast.walk(h.node):
                if isinstance(x, ast.Name) and isinstance(x.ctx, ast.Load) and x.id not in local and x.id not in alias:
                    bh, bc = h.resolve(x.id), caller.resolve(x.id)
                    if bh is None:
                        if bc is None and hasattr(_b, x.id):
                            continue
                        if bc is None:
                            continue  # unresolved in both (reported elsewhere)
                        return None  # a builtin in the helper, shadowed in the caller's module
                    if bc is not None and bh.kind == bc.kind and (bh.target is bc.target or (
                            bh.kind == "ext" and str(bh.target) == str(bc.target)) or (
                            bh.kind == "var" and bc.kind == "var" and bh.target[0] is bc.target[0] and bh.target[1] == bc.target[1])):
                        continue
                    if bc is None and x.id not in caller.module.functions and x.id not in caller.module.classes \
                            and x.id not in caller.module.assigns and not hasattr(_b, x.id):
                        # the caller's module simply does not know the name: it gets the helper's binding under the same name
                        caller.module._cache[x.id] = bh
                        continue
                    nm = "_from_%s_%s" % (h.module.name.split(".")[-1], x.id)
                    prev = caller.module._cache.get(nm)
                    if prev is not None and prev is not bh and not (prev.kind == bh.kind and prev.target is bh.target):
                        return None
                    caller.module._cache[nm] = bh
                    alias[x.id] = nm
            return alias

        def instantiate(caller: FunctionInfo, h: FunctionInfo, call: ast.Call, keep_returns: bool = False, unpack: int = 0):
            """(prologue statements, body statements without the final return, return expression or None)"""
            counter[0] += 1
            k = counter[0]
            # (function-level imports of the helper are not copied: same_bindings() has established that the caller sees the
            # same objects under the same names)
            b = [copy.deepcopy(x) for x in body_of(h) if not isinstance(x, (ast.Import, ast.ImportFrom))]
            rets_ = [x for st_ in b for x in ast.walk(st_) if isinstance(x, ast.Return)]
            early = any(r is not b[-1] for r in rets_)
            if early and not keep_returns:
                ar = unpack if (unpack and all(isinstance(r.value, ast.Tuple) and len(r.value.elts) == unpack for r in rets_)) else None
                b = _single_exit(b, ar)
            assigned = {x.id for st in b for x in ast.walk(st) if isinstance(x, ast.Name) and isinstance(x.ctx, (ast.Store, ast.Del))}
            uses: Dict[str, int] = {}
            for st in b:
                for x in ast.walk(st):
                    if isinstance(x, ast.Name) and isinstance(x.ctx, ast.Load):
                        uses[x.id] = uses.get(x.id, 0) + 1
            ren: Dict[str, ast.AST] = {}
            pro = []
            for p_, a_ in zip(h.params, getattr(call, "_inl_args", None) or call.args):
                if p_ not in assigned and (simple_arg(a_) or uses.get(p_, 0) <= 1):
                    ren[p_] = a_
                else:
                    nm = "_inl%d_%s" % (k, p_)
                    pro.append(ast.Assign(targets=[ast.Name(id=nm, ctx=ast.Store())], value=copy.deepcopy(a_)))
                    ren[p_] = ast.Name(id=nm, ctx=ast.Load())
            for nm in assigned:
                if nm not in h.params:
                    ren[nm] = ast.Name(id="_inl%d_%s" % (k, nm), ctx=ast.Load())
            for nm, al in (same_bindings(caller, h) or {}).items():
                if nm not in ren:
                    ren[nm] = ast.Name(id=al, ctx=ast.Load())
            same_mod = caller.module is h.module

            class Sub(ast.NodeTransformer):
                def visit_Name(self, n):
                    r = ren.get(n.id)
                    if r is None:
                        return n
                    if isinstance(n.ctx, ast.Load):
                        return copy.deepcopy(r)
                    if isinstance(r, ast.Name):
                        return ast.Name(id=r.id, ctx=n.ctx)
                    return n
            out = [Sub().visit(st) for st in b]
            for st in pro + out:
                for x in ast.walk(st):
                    if not same_mod or not hasattr(x, "lineno"):
                        ast.copy_location(x, call)
            ret = None
            if early and keep_returns:
                # `return helper(..)`: the helper's own returns are the caller's returns (a path that falls off the end of
                # the helper returns None)
                falls = not isinstance(out[-1], (ast.Return, ast.Raise))
                return pro, out, (ast.Constant(value=None) if falls else KEEP)
            if out and isinstance(out[-1], ast.Return):
                ret = out[-1].value
                out = out[:-1]
            return pro, out, ret

        RESULT = "_inl_result"
        KEEP = ast.Constant(value="\0keep-returns")

        def _single_exit(stmts, arity=None):
            """the same statements with every `return e` turned into `_inl_result = e` and the code after an if that returns
            moved into the branches that fall through; ends with `return _inl_result` (every path ends in a return or a raise)"""
            def conv(L):
                for i, st in enumerate(L):
                    if isinstance(st, ast.Return):
                        val = st.value if st.value is not None else ast.Constant(value=None)
                        if arity is not None:
                            # the call is unpacked (`u, v, flag = helper(..)`) and every return is a tuple display: one result
                            # variable per element, so that a constant flag stays a constant
                            return L[:i] + [ast.copy_location(ast.Assign(targets=[ast.Name(id="%s_%d" % (RESULT, j), ctx=ast.Store())], value=x), st)
                                            for j, x in enumerate(val.elts)]
                        return L[:i] + [ast.copy_location(ast.Assign(targets=[ast.Name(id=RESULT, ctx=ast.Store())], value=val), st)]
                    if isinstance(st, ast.Raise):
                        return L[:i + 1]
                    if isinstance(st, ast.If) and any(isinstance(y, ast.Return) for y in ast.walk(st)):
                        rest = L[i + 1:]
                        new_if = ast.copy_location(ast.If(test=st.test, body=conv(list(st.body) + [copy.deepcopy(x) for x in rest]),
                                                          orelse=conv(list(st.orelse) + [copy.deepcopy(x) for x in rest])), st)
                        if not new_if.body:
                            new_if.body = [ast.copy_location(ast.Pass(), st)]
                        return L[:i] + [new_if]
                if arity is not None:
                    return L + [ast.Raise(exc=ast.Call(func=ast.Name(id="TypeError", ctx=ast.Load()), args=[], keywords=[]), cause=None)]  # None is not unpackable
                return L + [ast.Assign(targets=[ast.Name(id=RESULT, ctx=ast.Store())], value=ast.Constant(value=None))]
            out = conv(list(stmts))
            if arity is not None:
                out.append(ast.Return(value=ast.Tuple(elts=[ast.Name(id="%s_%d" % (RESULT, j), ctx=ast.Load()) for j in range(arity)], ctx=ast.Load())))
            else:
                out.append(ast.Return(value=ast.Name(id=RESULT, ctx=ast.Load())))
            for x in out:
                ast.fix_missing_locations(x)
            return out

        def inlinable_call(caller: FunctionInfo, c) -> Optional[FunctionInfo]:
            if isinstance(c, ast.Call) and isinstance(c.func, ast.Attribute) and isinstance(c.func.value, ast.Name) and not c.keywords \
                    and not any(isinstance(a, ast.Starred) for a in c.args) and by_method.get(c.func.attr):
                h = method_meant(caller, c)
                if h is None or h is caller or h.qual not in cands:
                    return None
                args = [ast.copy_location(ast.Name(id=c.func.value.id, ctx=ast.Load()), c)] + list(c.args)
                if len(args) < len(h.params):
                    ds = list(h.defaults)
                    missing = h.params[len(args):]
                    dmap = dict(zip(h.params[len(h.params) - len(ds):], ds))
                    if all(m_ in dmap and isinstance(dmap[m_], ast.Constant) for m_ in missing):
                        args = args + [copy.deepcopy(dmap[m_]) for m_ in missing]
                if len(args) != len(h.params) or same_bindings(caller, h) is None:
                    return None
                c._inl_args = args
                return h
            if not (isinstance(c, ast.Call) and isinstance(c.func, ast.Name) and not c.keywords
                    and not any(isinstance(a, ast.Starred) for a in c.args)):
                return None
            b = caller.resolve(c.func.id)
            if b is None or b.kind != "func" or b.target.qual not in cands or b.target is caller:
                return None
            h = b.target
            if len(c.args) < len(h.params):
                ds = list(h.defaults)
                missing = h.params[len(c.args):]
                dmap = dict(zip(h.params[len(h.params) - len(ds):], ds))
                import builtins as _bi
                if all(m_ in dmap and (isinstance(dmap[m_], ast.Constant) or (
                        isinstance(dmap[m_], ast.Name) and hasattr(_bi, dmap[m_].id) and h.resolve(dmap[m_].id) is None
                        and caller.resolve(dmap[m_].id) is None)) for m_ in missing):
                    c.args = list(c.args) + [copy.deepcopy(dmap[m_]) for m_ in missing]  # the defaults, written out
            if len(c.args) != len(h.params) or same_bindings(caller, h) is None:
                return None
            if caller.qual in cands and h.qual in graph.get(caller.qual, ()) and False:
                return None
            return h

        def rewrite_block(caller: FunctionInfo, stmts: list, depth: int) -> list:
            out = []
            for st in stmts:
                # nested blocks first
                for fld in ("body", "orelse", "finalbody"):
                    L = getattr(st, fld, None)
                    if isinstance(L, list) and L and isinstance(L[0], ast.stmt):
                        setattr(st, fld, rewrite_block(caller, L, depth))
                if isinstance(st, ast.Try):
                    for h_ in st.handlers:
                        h_.body = rewrite_block(caller, h_.body, depth)
                call = st.value if isinstance(st, (ast.Expr, ast.Assign, ast.Return)) else None
                h = inlinable_call(caller, call) if call is not None and depth < 3 else None
                if h is not None and isinstance(st, ast.Return) and len(h.params) == 2 and len(caller.params) == 2 and caller.cls is None \
                        and all(isinstance(a_, ast.Name) for a_ in call.args):
                    # `return sub(x, y)` in a two-operand function: a dispatch edge to a (sub-)handler of the same operands --
                    # the dispatch rules (C04, C10, C11) follow these edges themselves and want to see them
                    h = None
                if h is not None and not is_expression_helper(h):
                    n_unpack = len(st.targets[0].elts) if (isinstance(st, ast.Assign) and len(st.targets) == 1 and isinstance(st.targets[0], ast.Tuple)
                                                          and all(isinstance(t_, ast.Name) for t_ in st.targets[0].elts)) else 0
                    pro, body, ret = instantiate(caller, h, call, keep_returns=isinstance(st, ast.Return), unpack=n_unpack)
                    body = rewrite_block(caller, pro + body, depth + 1)
                    if ret is KEEP:
                        tail = []
                    elif isinstance(st, ast.Expr):
                        tail = []
                    elif isinstance(st, ast.Assign) and len(st.targets) == 1 and isinstance(st.targets[0], ast.Tuple) and isinstance(ret, ast.Tuple) \
                            and len(ret.elts) == len(st.targets[0].elts) and all(isinstance(t_, ast.Name) for t_ in st.targets[0].elts):
                        # u, v = helper(..) with `return e1, e2`: element-wise (the returned expressions are the helper's fresh locals)
                        tail = [ast.copy_location(ast.Assign(targets=[t_], value=v_), st) for t_, v_ in zip(st.targets[0].elts, ret.elts)]
                    elif isinstance(st, ast.Assign):
                        tail = [ast.copy_location(ast.Assign(targets=st.targets, value=ret if ret is not None else ast.Constant(value=None)), st)]
                    else:
                        tail = [ast.copy_location(ast.Return(value=ret if ret is not None else ast.Constant(value=None)), st)]
                    new = body + tail
                    for x in new:
                        ast.fix_missing_locations(x)
                    out.extend(new)
                    continue
                out.append(expr_inline(caller, st, depth))
            return out

        def expr_inline(caller: FunctionInfo, st, depth: int):
            nest = [0]

            class E(ast.NodeTransformer):
                def visit_Call(self_, c):
                    self_.generic_visit(c)
                    h = inlinable_call(caller, c) if depth < 3 else None
                    if h is not None and is_expression_helper(h):
                        pro, body, ret = instantiate(caller, h, c)
                        if pro:
                            return c  # an argument would have to be bound first: leave the call
                        # expand the helper's straight-line locals into its return expression
                        defs = {}
                        for a_ in body:
                            v = a_.value
                            for nm, dv in list(defs.items()):
                                v = _subst_name(v, nm, dv)
                            defs[a_.targets[0].id] = v
                        for nm, dv in defs.items():
                            ret = _subst_name(ret, nm, dv)
                        ret = ast.copy_location(ret, c)
                        # helper calls inside the helper's own expression (helpers on a call cycle are no candidates)
                        if nest[0] < 4:
                            nest[0] += 1
                            try:
                                ret = self_.visit(ret)
                            finally:
                                nest[0] -= 1
                        return ret
                    return c

                def visit_FunctionDef(self_, n):
                    return n

                def visit_Lambda(self_, n):
                    return n
            # only the statement's own expressions (nested blocks were handled by rewrite_block)
            for fld, val in ast.iter_fields(st):
                if fld in ("body", "orelse", "finalbody", "handlers"):
                    continue
                if isinstance(val, ast.AST):
                    setattr(st, fld, E().visit(val))
                elif isinstance(val, list):
                    setattr(st, fld, [E().visit(v) if isinstance(v, ast.AST) else v for v in val])
            return st

        def _subst_name(e, name, repl):
            class S_(ast.NodeTransformer):
                def visit_Name(self_, n):
                    if n.id == name and isinstance(n.ctx, ast.Load):
                        return copy.deepcopy(repl)
                    return n
            return S_().visit(copy.deepcopy(e))

        # callers: every function of the core modules; helpers that call helpers are expanded on demand (depth-limited,
        # instantiate() copies the helper's ORIGINAL body, so the order of processing does not matter)
        originals = {q: copy.deepcopy(f.node.body) for q, f in cands.items()}
        for fi in list(self.functions(include_visualization=False)):
            fi.node.body = rewrite_block(fi, fi.node.body, 0)
            ast.fix_missing_locations(fi.node)
        for fi in self.functions():
            fi._local_imports = None  # (a spliced helper may have brought a function-level import with it)

    def _flatten_genexp_loops(self):
        """`for v in (E(x) for x in C): body`  ->  `for x in C: v = E(x); body` -- a loop over a generator expression with one
        generator and no filter runs E and the body alternately, element by element, exactly like the flattened loop (inlined
        accumulation helpers such as `_running_total(s.length() for s in self.segment_set)` produce this form).  Only when
        the comprehension variable is not otherwise a local of the function and the loop has no else clause."""
        for fi in self.functions(include_visualization=False):
            locals_ = {x.id for x in ast.walk(fi.node) if isinstance(x, ast.Name) and isinstance(x.ctx, (ast.Store, ast.Del))} | set(fi.params)
            changed = False
            for lp in [n for n in ast.walk(fi.node) if isinstance(n, ast.For)]:
                it = lp.iter
                if not (isinstance(it, ast.GeneratorExp) and len(it.generators) == 1 and not it.generators[0].ifs
                        and not it.generators[0].is_async and not lp.orelse and isinstance(lp.target, ast.Name)):
                    continue
                g = it.generators[0]
                gvars = {x.id for x in ast.walk(g.target) if isinstance(x, ast.Name)}
                # (comprehension variables are not function locals: a clash means the name is used for something else too)
                outside = {x.id for x in ast.walk(fi.node) if isinstance(x, ast.Name) and isinstance(x.ctx, (ast.Store, ast.Del))
                           and not any(x is y for y in ast.walk(it))}
                if gvars & (outside | set(fi.params)) or lp.target.id in gvars:
                    continue
                vname = lp.target.id
                uses = [x for b_ in lp.body for x in ast.walk(b_) if isinstance(x, ast.Name) and x.id == vname]
                used_after = any(isinstance(x, ast.Name) and x.id == vname and not any(x is y for y in ast.walk(lp)) for x in ast.walk(fi.node))
                if len(uses) == 1 and isinstance(uses[0].ctx, ast.Load) and not used_after:
                    # the value is used once: written in place (`total += segment.length()`)
                    import copy as _copy
                    elt = it.elt

                    class _One(ast.NodeTransformer):
                        def visit_Name(self, n_):
                            if n_ is uses[0]:
                                return _copy.deepcopy(elt)
                            return n_
                    lp.body = [_One().visit(b_) for b_ in lp.body]
                else:
                    first = ast.copy_location(ast.Assign(targets=[ast.Name(id=vname, ctx=ast.Store())], value=it.elt), lp)
                    lp.body = [first] + list(lp.body)
                lp.target = g.target
                lp.iter = g.iter
                changed = True
            if changed:
                ast.fix_missing_locations(fi.node)

    def _unroll_literal_loops(self):
        """`for x, t in zip((a, b), (Point, Vector)): body` and `for x in (a, b): body` -- a loop over a literal tuple / list (or a
        zip of literal tuples of equal length) of at most 8 simple items, without break / continue / else, whose body does not
        assign the loop variables -- is the sequence of its iterations with the items written in place of the variables.
        (Inlined checking helpers such as `_require_types((a, b), (Point, Vector), ...)` produce exactly such loops.)"""
        import copy
        from .confinement import unroll_items

        def simple(a) -> bool:
            if isinstance(a, ast.Tuple):
                return all(simple(x) for x in a.elts)  # e.g. a tuple of classes for isinstance
            while isinstance(a, ast.Attribute):
                a = a.value
            return isinstance(a, (ast.Name, ast.Constant))

        def items_of(lp: ast.For):
            it = lp.iter
            if isinstance(it, ast.Call) and isinstance(it.func, ast.Name) and it.func.id == "zip" and not it.keywords and it.args \
                    and all(isinstance(a, (ast.Tuple, ast.List)) for a in it.args) and len({len(a.elts) for a in it.args}) == 1:
                fake = ast.For(target=lp.target, iter=ast.Tuple(elts=[ast.Tuple(elts=list(col), ctx=ast.Load()) for col in zip(*[a.elts for a in it.args])],
                                                                 ctx=ast.Load()), body=lp.body, orelse=lp.orelse)
                return unroll_items(fake)
            if isinstance(it, (ast.Tuple, ast.List)):
                return unroll_items(lp)
            return None

        def rewrite(fi, stmts):
            out = []
            for st in stmts:
                for fld in ("body", "orelse", "finalbody"):
                    L = getattr(st, fld, None)
                    if isinstance(L, list) and L and isinstance(L[0], ast.stmt):
                        setattr(st, fld, rewrite(fi, L))
                if isinstance(st, ast.For) and not st.orelse:
                    items = items_of(st)
                    tnames = [x.id for x in ast.walk(st.target) if isinstance(x, ast.Name)]
                    assigned = {x.id for b in st.body for x in ast.walk(b) if isinstance(x, ast.Name) and isinstance(x.ctx, (ast.Store, ast.Del))}
                    # the loop variables keep their last value after the loop: a loop whose variables are read elsewhere stays
                    inside = sum(1 for x in ast.walk(st) if isinstance(x, ast.Name) and x.id in tnames and isinstance(x.ctx, ast.Load))
                    total = sum(1 for x in ast.walk(fi.node) if isinstance(x, ast.Name) and x.id in tnames and isinstance(x.ctx, ast.Load))
                    used_after = total != inside
                    if items is not None and 0 < len(items) <= 8 and not (set(tnames) & assigned) and not used_after:
                        flat_ok = True
                        subs = []
                        for elt in items:
                            if isinstance(st.target, ast.Name):
                                pairs = [(st.target.id, elt)]
                            elif isinstance(st.target, (ast.Tuple, ast.List)) and isinstance(elt, (ast.Tuple, ast.List)) \
                                    and len(elt.elts) == len(st.target.elts) and all(isinstance(t, ast.Name) for t in st.target.elts):
                                pairs = [(t.id, v) for t, v in zip(st.target.elts, elt.elts)]
                            else:
                                flat_ok = False
                                break
                            if not all(simple(v) for _, v in pairs):
                                flat_ok = False
                                break
                            subs.append(dict(pairs))
                        # the loop variables must not be read after the loop
                        if flat_ok:
                            for sub in subs:
                                class S_(ast.NodeTransformer):
                                    def visit_Name(self_, n):
                                        if isinstance(n.ctx, ast.Load) and n.id in sub:
                                            return ast.copy_location(copy.deepcopy(sub[n.id]), n)
                                        return n
                                out.extend(S_().visit(copy.deepcopy(b)) for b in st.body)
                            continue
                out.append(st)
            return out

        for fi in list(self.functions(include_visualization=False)):
            # loop variables that are read outside their loop forbid the substitution form for that function
            fi.node.body = rewrite(fi, fi.node.body)
            ast.fix_missing_locations(fi.node)

    def _inline_field_aliases(self):
        """`sv = self.sv` ... `sv[0] += v[0]` ... `Line(sv, self.dv)`: a local bound ONCE to a field of a parameter names the
        same object as the field for as long as the field is not re-bound.  Such locals are read as the field itself
        (performance commits introduce them in bulk), provided that inside the function
          * the local has exactly one definition and the parameter is never re-assigned,
          * no statement stores into an attribute of that name (`X.f = ...`, `X.f += ...`) and
          * no method is called that -- directly or through other methods of its class -- re-binds an attribute of
            that name (by method name, over all classes of the package)."""
        from .astutil import single_defs
        # attribute name -> names of methods that (transitively) re-bind it
        direct: Dict[str, Set[str]] = {}
        calls: Dict[str, Set[str]] = {}
        for fi in self.functions():
            if fi.cls is None or fi.self_name is None:
                continue
            for n in walk_local(fi.node):
                tg = []
                if isinstance(n, ast.Assign):
                    tg = n.targets
                elif isinstance(n, (ast.AugAssign, ast.AnnAssign)):
                    tg = [n.target]
                for t in tg:
                    for x in ast.walk(t):
                        if isinstance(x, ast.Attribute) and isinstance(x.ctx, ast.Store):
                            direct.setdefault(x.attr, set()).add(fi.name)
                if isinstance(n, ast.Call) and isinstance(n.func, ast.Attribute):
                    calls.setdefault(fi.name, set()).add(n.func.attr)
        rebinders: Dict[str, Set[str]] = {}
        for f, ms in direct.items():
            cur = set(ms)
            changed = True
            while changed:
                changed = False
                for m, cs in calls.items():
                    if m not in cur and cs & cur:
                        cur.add(m)
                        changed = True
            rebinders[f] = cur

        def _rebinds(n, f, base) -> bool:
            """a call that may re-bind the attribute f OF THE OBJECT `base`: a method that (transitively) stores an attribute
            of that name, called on `base` itself or handed `base` as an argument (a method called on a sub-object re-binds
            the sub-object's own fields)"""
            if not (isinstance(n, ast.Call) and isinstance(n.func, ast.Attribute) and n.func.attr in rebinders.get(f, ())
                    and n.func.attr != "__init__"):
                return False
            if isinstance(n.func.value, ast.Name) and n.func.value.id == base:
                return True
            return any(isinstance(a, ast.Name) and a.id == base for a in list(n.args) + [k.value for k in n.keywords])

        class R(ast.NodeTransformer):
            def __init__(self, amap):
                self.amap = amap

            def visit_Name(self, n):
                if isinstance(n.ctx, ast.Load) and n.id in self.amap:
                    return ast.copy_location(copy.deepcopy(self.amap[n.id]), n)
                return n

        import copy
        for fi in list(self.functions()):
            store_count: Dict[str, int] = {}
            for x in ast.walk(fi.node):
                if isinstance(x, ast.Name) and isinstance(x.ctx, (ast.Store, ast.Del)):
                    store_count[x.id] = store_count.get(x.id, 0) + 1
                elif isinstance(x, (ast.For, ast.comprehension)):
                    pass
            par_of: Dict[int, Tuple[ast.AST, list, int]] = {}
            for n in ast.walk(fi.node):
                for fld in ("body", "orelse", "finalbody"):
                    L = getattr(n, fld, None)
                    if isinstance(L, list):
                        for i, st in enumerate(L):
                            if isinstance(st, ast.stmt):
                                par_of[id(st)] = (n, L, i)
            cands = []
            for st in walk_local(fi.node):
                if isinstance(st, ast.Assign) and len(st.targets) == 1 and isinstance(st.targets[0], ast.Name):
                    v = st.value
                    x = st.targets[0].id
                    if isinstance(v, ast.Attribute) and isinstance(v.value, ast.Name) and v.value.id in fi.params \
                            and store_count.get(v.value.id, 0) == 0 and store_count.get(x, 0) == 1 and id(st) in par_of:
                        cands.append((st, x, v))
            # second form:  x = e ; ... ; p.f = x   -- from the store on, x names the field's value
            for st in walk_local(fi.node):
                if isinstance(st, ast.Assign) and len(st.targets) == 1 and isinstance(st.targets[0], ast.Attribute) \
                        and isinstance(st.targets[0].value, ast.Name) and st.targets[0].value.id in fi.params \
                        and store_count.get(st.targets[0].value.id, 0) == 0 and isinstance(st.value, ast.Name) \
                        and st.value.id not in fi.params and store_count.get(st.value.id, 0) == 1 and id(st) in par_of:
                    t = st.targets[0]
                    f, x = t.attr, st.value.id
                    others = [n for n in ast.walk(fi.node) if isinstance(n, ast.Attribute) and n.attr == f
                              and isinstance(n.ctx, (ast.Store, ast.Del)) and n is not t]
                    calls_rebinder = any(_rebinds(n, f, t.value.id) for n in ast.walk(fi.node))
                    nested = any(isinstance(n, (ast.FunctionDef, ast.Lambda)) and n is not fi.node
                                 and any(isinstance(y, ast.Name) and y.id == x for y in ast.walk(n)) for n in ast.walk(fi.node))
                    if others or calls_rebinder or nested or (fi.cls is not None and fi.cls.lookup(f) is not None):
                        continue
                    owner, blk, k = par_of[id(st)]
                    repl = ast.Attribute(value=ast.Name(id=t.value.id, ctx=ast.Load()), attr=f, ctx=ast.Load())
                    for i in range(k + 1, len(blk)):
                        blk[i] = R({x: ast.copy_location(repl, st)}).visit(blk[i])
                    ast.fix_missing_locations(fi.node)
            # third form:  add = point_set.add ; ... add(p)   -- a bound method of a container that is never re-bound
            for st in list(walk_local(fi.node)):
                if isinstance(st, ast.Assign) and len(st.targets) == 1 and isinstance(st.targets[0], ast.Name) \
                        and isinstance(st.value, ast.Attribute) and isinstance(st.value.value, ast.Name) \
                        and st.value.attr in ("add", "append", "extend", "update", "insert", "discard", "remove", "setdefault") \
                        and store_count.get(st.targets[0].id, 0) == 1 and st.targets[0].id not in fi.params:
                    X = st.value.value.id
                    if store_count.get(X, 0) > (0 if X in fi.params else 1):
                        continue
                    f = st.targets[0].id
                    uses = [n for n in ast.walk(fi.node) if isinstance(n, ast.Name) and n.id == f and isinstance(n.ctx, ast.Load)]
                    call_funcs = {id(n.func) for n in ast.walk(fi.node) if isinstance(n, ast.Call)}
                    if not uses or any(id(u) not in call_funcs for u in uses):
                        continue  # the bound method escapes (passed on / stored): leave it alone
                    for i, s2 in enumerate(fi.node.body):
                        fi.node.body[i] = R({f: st.value}).visit(s2)
                    ast.fix_missing_locations(fi.node)
            if not cands:
                continue
            for st, x, v in cands:
                f = v.attr
                owner, blk, k = par_of[id(st)]
                top = owner is fi.node
                if x in fi.params and not top:
                    continue
                prev = blk[k - 1] if k > 0 else None
                bad = False
                for n in ast.walk(fi.node):
                    if isinstance(n, ast.Attribute) and n.attr == f and isinstance(n.ctx, (ast.Store, ast.Del)):
                        # the store of a desugared chain  `p.f = e ; x = p.f`  directly in front of the alias is the binding itself
                        if not (isinstance(prev, ast.Assign) and len(prev.targets) == 1 and prev.targets[0] is n
                                and isinstance(n.value, ast.Name) and n.value.id == v.value.id):
                            bad = True
                    if _rebinds(n, f, v.value.id):
                        bad = True
                    if isinstance(n, (ast.FunctionDef, ast.Lambda, ast.AsyncFunctionDef)) and n is not fi.node:
                        bad = bad or any(isinstance(y, ast.Name) and y.id == x for y in ast.walk(n))
                if fi.cls is not None and fi.cls.lookup(f) is not None:
                    bad = True  # a bound method / property, not a data field
                if bad:
                    continue
                if top:
                    for i in range(k + 1, len(blk)):
                        blk[i] = R({x: v}).visit(blk[i])
                else:
                    for i, s2 in enumerate(fi.node.body):
                        fi.node.body[i] = R({x: v}).visit(s2)
            ast.fix_missing_locations(fi.node)

    def _positional_calls(self):
        """f(a, k2=y, k1=x) of a function / class of the package whose parameters are known  ->  f(a, x, y): keyword
        arguments that can be placed without a gap become positional (evaluation order of the arguments is not part of
        any property here; the rules then see one spelling of a call)"""
        for fi in list(self.functions()):
            for c in ast.walk(fi.node):
                if not (isinstance(c, ast.Call) and c.keywords and isinstance(c.func, ast.Name)):
                    continue
                if any(k.arg is None for k in c.keywords) or any(isinstance(a, ast.Starred) for a in c.args):
                    continue
                b = fi.resolve(c.func.id)
                params = None
                if b is not None and b.kind == "func" and b.target.vararg is None:
                    params = list(b.target.params)
                    if b.target.cls is not None:
                        params = params[1:]  # cls of a classmethod alias (Circle = ConvexPolygon.Circle)
                elif b is not None and b.kind == "class":
                    init = b.target.lookup("__init__")
                    if init is not None and init.vararg is None:
                        params = list(init.params[1:])
                if not params:
                    continue
                kw = {k.arg: k.value for k in c.keywords}
                new_args = list(c.args)
                i = len(new_args)
                while i < len(params) and params[i] in kw:
                    new_args.append(kw.pop(params[i]))
                    i += 1
                if len(new_args) != len(c.args):
                    c.args = new_args
                    c.keywords = [k for k in c.keywords if k.arg in kw]

    # ---- enumeration
    def functions(self, include_visualization: bool = True) -> Iterator[FunctionInfo]:
        for m in self.modules.values():
            if not include_visualization and ".visualization" in m.name:
                continue
            for f in m.functions.values():
                yield f
            for c in m.classes.values():
                for f in c.methods.values():
                    yield f

    def core_modules(self) -> List[Module]:
        return [m for m in self.modules.values() if ".visualization" not in m.name]

    def module(self, dotted: str) -> Module:
        full = dotted if dotted.startswith(PKG) else PKG + "." + dotted
        m = self.modules.get(full)
        if m is None:
            raise AnalysisError("module %s not found" % full)
        return m

    def fn(self, short: str, module: Optional[str] = None) -> FunctionInfo:
        """Look a function up by 'name' or 'Class.name' (module optional)."""
        cands = self._short_index.get(short, [])
        if module is not None:
            full = module if module.startswith(PKG) else PKG + "." + module
            cands = [c for c in cands if c.module.name == full]
        if len(cands) == 1:
            return cands[0]
        if not cands:
            raise AnalysisError("anchor function %s%s not found" % (short, " in " + module if module else ""))
        raise AnalysisError("function name %s is ambiguous: %s" % (short, [c.qual for c in cands]))

    def has_fn(self, short: str, module: Optional[str] = None) -> bool:
        try:
            self.fn(short, module)
            return True
        except AnalysisError:
            return False

    def cls(self, name: str) -> ClassInfo:
        cands = self._class_index.get(name, [])
        if len(cands) == 1:
            return cands[0]
        if not cands:
            raise AnalysisError("anchor class %s not found" % name)
        raise AnalysisError("class name %s is ambiguous" % name)

    def has_cls(self, name: str) -> bool:
        return len(self._class_index.get(name, [])) == 1

    def classes(self) -> Iterator[ClassInfo]:
        for m in self.modules.values():
            for c in m.classes.values():
                yield c

    # ---- checked structural facts
    def check_exclusive_geom7(self):
        """None of the seven geometry classes is a subclass of another."""
        cs = [self.cls(n) for n in GEOM7]
        for a in cs:
            for b in cs:
                if a is not b and a.is_subclass_of(b):
                    raise AnalysisError(
                        "%s is a subclass of %s: isinstance dispatch is no longer exclusive" % (a.name, b.name)
                    )
        # and no other class in the package derives from one of them
        for c in self.classes():
            if c.name in GEOM7:
                continue
            for b in c.mro()[1:]:
                if b.name in GEOM7:
                    raise AnalysisError("%s subclasses geometry type %s (assumption A2)" % (c.name, b.name))

    def _dynamic_inventory(self):
        found = []
        for fi in self.functions():
            for d in fi.decorators:
                if _is_memo_decorator(d):
                    continue  # modelled: the function hands out one remembered result per argument tuple (see C20 R20.2)
                if d not in ALLOWED_DECORATORS:
                    found.append((fi.short, "decorator:" + d, fi.where()))
            if fi.name in DYNAMIC_DEFS:
                found.append((fi.short, "def:" + fi.name, fi.where()))
        for m in self.modules.values():
            ctx = {}
            for fi_ in list(m.functions.values()) + [f for c in m.classes.values() for f in c.methods.values()]:
                for n in ast.walk(fi_.node):
                    ctx[id(n)] = fi_.short
            hook_nodes = set()
            for c in m.classes.values():
                for h in c.copy_hooks.values():
                    for n in ast.walk(h.node):
                        hook_nodes.add(id(n))
            for n in ast.walk(m.tree):
                if id(n) in hook_nodes:
                    continue  # verified separately (C20 R20.4)
                who = ctx.get(id(n), "<module>")
                if isinstance(n, ast.Name) and n.id in DYNAMIC_NAMES:
                    found.append((who, n.id, loc(m, n)))
                elif isinstance(n, ast.Attribute) and n.attr in DYNAMIC_ATTRS:
                    found.append((who, n.attr, loc(m, n)))
        return found

    def check_dynamic_features(self):
        bad = [f for f in self.dynamic_inventory if (f[0], f[1]) not in KNOWN_DYNAMIC]
        if bad:
            raise AnalysisError(
                "unmodelled dynamic feature(s): "
                + "; ".join("%s uses %s at %s" % b for b in bad)
            )
        # the one modelled instance must keep the modelled shape
        for who, what, where in self.dynamic_inventory:
            if (who, what) == ("Point.__setitem__", "setattr"):
                fi = self.fn("Point.__setitem__")
                calls = [n for n in ast.walk(fi.node) if isinstance(n, ast.Call) and norm_text(n.func) == "setattr"]
                from .astutil import single_defs
                sd = single_defs(fi.node, fi.params)
                for c in calls:
                    a1 = c.args[1] if len(c.args) == 3 else None
                    if isinstance(a1, ast.Name) and a1.id in sd:
                        a1 = sd[a1.id]  # name = "xyz"[item]; setattr(self, name, value)
                    ok = (
                        len(c.args) == 3
                        and isinstance(c.args[0], ast.Name)
                        and c.args[0].id == fi.self_name
                        and isinstance(a1, ast.Subscript)
                        and isinstance(a1.value, ast.Constant)
                        and set(str(a1.value.value)) <= set("xyz")
                    )
                    if not ok:
                        raise AnalysisError("Point.__setitem__: setattr no longer has the modelled shape (%s)" % where)
