"""CLI:  python -m g3dsa.check <Cxx> [--tier quick|thorough] [--repo PATH]

exit 0  all obligations discharged (or only listed known findings)
exit 1  at least one violation not listed in known_findings.json
        (a line `VIOLATION property=<id> replay=<path>` is printed)
exit 2  ANALYSIS-ERROR: the analyser cannot decide (fail closed)
"""
from __future__ import annotations

import argparse
import importlib
import json
import os
import sys
import time
import traceback

from .model import AnalysisError, Repo
from .report import VERIF, Result, emit

PROPS = ["C01", "C02", "C03", "C04", "C05", "C06", "C07", "C08", "C10", "C11", "C12", "C14", "C15", "C18",
         "C19", "C20"]


class Ctx:
    """Shared, lazily computed analyses for one tree."""

    def __init__(self, repo: Repo, tier: str = "quick"):
        self.repo = repo
        self.tier = tier
        self._cfgs = {}
        self._types = None
        self._effects = None
        self.cache = {}

    def cfg(self, fi):
        from .cfg import CFG

        k = fi.qual
        if k not in self._cfgs:
            self._cfgs[k] = CFG(fi.node)
        return self._cfgs[k]

    @property
    def types(self):
        if self._types is None:
            from .entries import build_entries
            from .types import TypeEngine

            eng = TypeEngine(self.repo)
            eng.solve(build_entries(self.repo))
            if eng.unresolved_calls:
                ex = sorted(eng.unresolved_calls)
                raise AnalysisError(
                    "%d call site(s) whose callee cannot be named statically (table-driven or higher-order dispatch): e.g. %s -- "
                    "the program is outside the fragment this analysis resolves; no verdict" % (
                        len(ex), "; ".join("%s %s `%s`" % x for x in ex[:3])))
            coded = _coded_dispatch(self.repo, eng)
            if coded:
                raise AnalysisError(
                    "%d branch(es) of the calc layer select the operand pair by comparing computed integer / string codes (e.g. %s) "
                    "-- which branch runs for which operand types is not decidable by type inference; the program is outside the "
                    "fragment this analysis resolves; no verdict" % (len(coded), "; ".join(coded[:3])))
            self._types = eng
        return self._types

    @property
    def effects(self):
        if self._effects is None:
            from .effects import EffectEngine

            self._effects = EffectEngine(self.repo, self)
            self._effects.solve()
        return self._effects

    @property
    def transl(self):
        if self.cache.get("transl") is None:
            from .transl import Transl

            self.cache["transl"] = Transl(self)
        return self.cache["transl"]

    @staticmethod
    def require(res: Result, rule: str, got: int, expected_min: int, what: str):
        """Anti-vacuity: fewer instances than confirmed by hand => analysis error."""
        res.counters["instances:" + rule] = got
        if any(f.rule == rule or f.rule == rule.rstrip("abcdefgh") for f in res.findings):
            return  # the rule has fired: it is certainly not vacuous, and a violating tree may have fewer instances
        if got < expected_min:
            raise AnalysisError(
                "%s: only %d %s found, at least %d were confirmed on the reference tree -- "
                "the rule would pass vacuously" % (rule, got, what, expected_min)
            )



def _coded_dispatch(repo, eng):
    """`if kind_x == _POINT and kind_y == _LINE:` -- a test made only of ==/!= between plain names / int or str constants of
    number / string type, in a module-level function of the calc package, that the type inference leaves undecided (both
    outcomes feasible in one context) and whose branches call package functions: a dispatch on computed kind codes."""
    import ast as _ast
    from .model import walk_local

    def atom_ok(fi, bound, a):
        if isinstance(a, _ast.BoolOp):
            return all(atom_ok(fi, bound, v) for v in a.values)
        if isinstance(a, _ast.UnaryOp) and isinstance(a.op, _ast.Not):
            return atom_ok(fi, bound, a.operand)
        if not (isinstance(a, _ast.Compare) and len(a.ops) == 1 and isinstance(a.ops[0], (_ast.Eq, _ast.NotEq))):
            return False
        sides = [a.left, a.comparators[0]]
        for x in sides:
            if isinstance(x, _ast.Constant) and isinstance(x.value, (int, str)) and not isinstance(x.value, bool):
                continue
            if isinstance(x, _ast.Name):
                tags = eng.ctx_node_types.get((fi.qual, bound, id(x)), ())
                if tags and all((isinstance(t, tuple) and t and t[0] == "Unknown") or (not isinstance(t, tuple) and str(t) in ("num", "str", "None"))
                                for t in tags):
                    continue
            return False
        names = [x for x in sides if isinstance(x, _ast.Name) and x.id not in fi.params]
        if not names:
            return False
        # a cardinality (`count = len(point_set)`; `if count == 2`) is data, not a kind code
        from .astutil import assigned_names
        asg = assigned_names(fi.node)
        for x in names:
            defs = asg.get(x.id, [])
            if defs and all(isinstance(d, _ast.Assign) and any(isinstance(c, _ast.Call) and isinstance(c.func, _ast.Name) and c.func.id == "len"
                                                               for c in _ast.walk(d.value)) for d in defs):
                return False
        return True

    out = []
    for fi in repo.functions(include_visualization=False):
        if fi.cls is not None or ".calc." not in "." + fi.module.name + ".":
            continue
        for st in walk_local(fi.node):
            if not isinstance(st, _ast.If):
                continue
            calls = [c for b_ in (st.body, st.orelse) for s_ in b_ for c in _ast.walk(s_)
                     if isinstance(c, _ast.Call) and eng.call_targets.get((fi.qual, id(c)))]
            if not calls:
                continue
            for bound, sm in eng.summaries_of(fi):
                if (id(st), True) in sm.branches and (id(st), False) in sm.branches and atom_ok(fi, bound, st.test):
                    out.append("%s `%s`" % (fi.where(st), _ast.unparse(st.test)[:50]))
                    break
    return out


def run_property(prop: str, repo_root: str, tier: str = "quick", ctx: Ctx = None) -> Result:
    """Run the rules of one property on one tree (no printing, no files)."""
    if sys.getrecursionlimit() < 20000:
        sys.setrecursionlimit(20000)
    if ctx is None:
        repo = Repo(repo_root)
        repo.check_dynamic_features()
        repo.check_exclusive_geom7()
        ctx = Ctx(repo, tier)
    mod = importlib.import_module("g3dsa.rules.%s" % prop.lower())
    res = Result(prop)
    try:
        mod.run(ctx, res)
    except AnalysisError as e:
        # a rule gave up after other rules had already established violations: each reported violation stands on its own rule
        # (its obligation was evaluated completely), so the verdict is "violated"; with no finding so far the run fails closed
        if not res.findings:
            raise
        res.note("analysis incomplete after the findings below: %s" % e)
        res.extra["incomplete"] = str(e)
    return res


def main(argv=None) -> int:
    sys.setrecursionlimit(20000)
    ap = argparse.ArgumentParser(prog="g3dsa.check")
    ap.add_argument("prop", nargs="?")
    ap.add_argument("--tier", default=os.environ.get("VERIF_TIER", "quick"), choices=["quick", "thorough"])
    ap.add_argument("--repo", default=os.environ.get("G3DSA_REPO", "/repo"))
    ap.add_argument("--evidence-dir", default=os.path.join(VERIF, "evidence"))
    ap.add_argument("--replay")
    ap.add_argument("--jobs", type=int, default=int(os.environ.get("G3DSA_JOBS", "16")))
    args = ap.parse_args(argv)
    try:
        seed = int(os.environ.get("VERIF_SEED", "0"))
    except ValueError:
        seed = 0
    t0 = time.time()
    prop = args.prop
    replay = None
    if args.replay:
        with open(args.replay) as fh:
            replay = json.load(fh)
        prop = replay["finding"]["property"]
    if prop not in PROPS:
        print("ANALYSIS-ERROR: unknown or unclaimed property %r (claimed: %s)" % (prop, " ".join(PROPS)))
        return 2
    try:
        res = run_property(prop, args.repo, args.tier)
        if replay is not None:
            want = replay["finding"]
            hits = [f for f in res.findings if f.rule == want["rule"] and f.function == want["function"]
                    and f.construct == want["construct"]]
            print("replay of %s %s %s" % (prop, want["rule"], want["function"]))
            if not hits:
                print("  the finding is NOT reproduced on %s" % args.repo)
                return 0
            for f in hits:
                print("  " + f.text())
                for dk, dv in (f.detail or {}).items():
                    print("     %s: %s" % (dk, dv))
                print("VIOLATION property=%s replay=%s" % (prop, args.replay))
            return 1
        selftest = None
        if args.tier != "thorough":
            # positive controls: rules that have no instance on today's tree must still fire on a tiny variant
            from .mutants import CONTROLS, catalogue
            from .selftest import _run_one
            for name in CONTROLS.get(prop, []):
                m = [x for x in catalogue(prop) if x.name == name]
                if not m:
                    print("ANALYSIS-ERROR: positive control %s is missing from the catalogue" % name)
                    return 2
                o = _run_one((prop, args.repo, m[0]))
                base = {tuple(k) for k in res.finding_keys()}
                new = [k for k in map(tuple, o.get("keys", [])) if k not in base and (m[0].rule is None or k[1] == m[0].rule)]
                res.extra.setdefault("positive_controls", []).append(
                    {"control": name, "rule": m[0].rule, "status": o["status"], "reported": bool(new)})
                if o["status"] == "inapplicable":
                    continue  # the anchor statement was rewritten; the thorough tier's seeded changes cover the rule
                if not new and res.findings:
                    # the tree under analysis already violates the property; the control variant of such a tree may not be analysable
                    res.note("positive control %s not evaluated on a tree with findings (%s)" % (name, o["status"]))
                    continue
                if not new:
                    print("ANALYSIS-ERROR: positive control %s (rule %s) was not reported: the rule would pass vacuously" % (name, m[0].rule))
                    return 2
        if args.tier == "thorough":
            from .selftest import run_selftest

            selftest = run_selftest(prop, args.repo, res, seed=seed, jobs=args.jobs)
        code = emit(res, args.tier, seed, time.time() - t0, args.evidence_dir, selftest=selftest)
        if selftest is not None and selftest.get("broken"):
            print("ANALYSIS-ERROR: checker self-validation failed for %s:" % prop)
            for b in selftest["broken"]:
                print("   " + b)
            return 2
        return code
    except AnalysisError as e:
        print("ANALYSIS-ERROR: %s" % e)
        return 2
    except Exception:  # never let a traceback look like a violation
        print("ANALYSIS-ERROR: internal error in the analyser")
        traceback.print_exc(file=sys.stdout)
        return 2


if __name__ == "__main__":
    sys.exit(main())
