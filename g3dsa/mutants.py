"""Mutant catalogue for the thorough tier's checker self-validation.

Every entry is one AST-level edit of one function, written against the
function's `ast.unparse` normal form (formatting- and position-independent).
`fault` edits are drawn from each rule's fault model and must be reported;
`neutral` edits are behaviour-preserving rewrites and must stay silent.
Whether the repository's own 87 tests kill a fault mutant was measured once
during development (see DESIGN.md) and is recorded in `tests_kill`; the
registered commands never run the test suite.
"""
from __future__ import annotations

from typing import Dict, List

from .selftest import Mutant

G = "Geometry3D/geometry/"
C = "Geometry3D/calc/"
U = "Geometry3D/utils/"
INTER = C + "intersection.py"

CAT: Dict[str, List[Mutant]] = {}


def F(prop, name, file, func, find, replace, rule=None, count=1, note=""):
    CAT.setdefault(prop, []).append(Mutant(prop + ":" + name, "fault", file, func, find, replace, rule, count, note))


def FB(prop, name, base, file, func, find, replace, rule=None, count=1, note=""):
    """fault variant applied ON TOP OF a behaviour-preserving refactor of the corpus (the rule must survive the refactor)"""
    CAT.setdefault(prop, []).append(Mutant(prop + ":" + name + "@" + base, "fault", file, func, find, replace, rule, count, note, base=base))


def NB(prop, name, base, file, func, find, replace, count=1, note=""):
    CAT.setdefault(prop, []).append(Mutant(prop + ":" + name + "@" + base, "neutral", file, func, find, replace, None, count, note, base=base))


def N(prop, name, file, func, find, replace, count=1, note=""):
    CAT.setdefault(prop, []).append(Mutant(prop + ":" + name, "neutral", file, func, find, replace, None, count, note))


# =========================================================================== C04
F("C04", "retarget-row", INTER, "intersection",
  "    elif isinstance(a, Line) and isinstance(b, Point):\n        return inter_point_line(b, a)",
  "    elif isinstance(a, Line) and isinstance(b, Point):\n        return inter_point_plane(b, a)", note="row calls another handler")
F("C04", "swap-args-segment-line", INTER, "intersection",
  "    elif isinstance(a, Segment) and isinstance(b, Line):\n        return inter_line_segment(b, a)",
  "    elif isinstance(a, Segment) and isinstance(b, Line):\n        return inter_line_segment(a, b)", note="(a, b)/(b, a) slip")
F("C04", "swap-args-cph-cpg", INTER, "intersection",
  "    elif isinstance(a, ConvexPolygon) and isinstance(b, ConvexPolyhedron):\n        return inter_convexpolygon_convexPolyhedron(b, a)",
  "    elif isinstance(a, ConvexPolygon) and isinstance(b, ConvexPolyhedron):\n        return inter_convexpolygon_convexPolyhedron(a, b)")
F("C04", "delete-row", INTER, "intersection",
  "    elif isinstance(a, HalfLine) and isinstance(b, Plane):\n        return inter_plane_halfline(b, a)\n", "", rule="R4.1")
F("C04", "shadow-rows", INTER, "intersection",
  "    elif isinstance(a, Point) and isinstance(b, Line):\n        return inter_point_line(a, b)",
  "    elif isinstance(a, Point):\n        return inter_point_line(a, b)", note="one row shadows the later Point rows")
F("C04", "same-operand-twice", INTER, "intersection",
  "    elif isinstance(a, ConvexPolyhedron) and isinstance(b, Plane):",
  "    elif isinstance(a, ConvexPolyhedron) and isinstance(a, Plane):", rule="R4.1", note="the original defect pattern")
F("C04", "pass-a-twice", INTER, "intersection",
  "    elif isinstance(a, Segment) and isinstance(b, Segment):\n        return inter_segment_segment(a, b)",
  "    elif isinstance(a, Segment) and isinstance(b, Segment):\n        return inter_segment_segment(a, a)", rule="R4.2")
F("C04", "return-carrier-type", INTER, "inter_line_segment", "        return s\n", "        return l\n", rule="R4.6",
  note="Line is not a documented result of Line x Segment")
F("C04", "switch-wrong-type", INTER, "inter_line_halfline", "    elif isinstance(inter, Line):", "    elif isinstance(inter, Segment):",
  rule="R4.7", note="type switch no longer handles Line")
F("C04", "switch-drops-none", INTER, "inter_plane_segment", "    if inter_p_l is None:\n        return None\n    elif", "    if",
  rule="R4.7", note="None falls into the internal raise")
F("C04", "none-test-one-sided", INTER, "intersection", "    if a is None or b is None:", "    if a is None:", rule="R4.5")
F("C04", "method-form-swapped", G + "body.py", "GeoBody.intersection", "return intersection(self, other)",
  "return intersection(other, self)", rule="R4.4")
F("C04", "membership-unsupported-pair", INTER, "inter_plane_convexpolyhedron", "        if cpg in a:", "        if a in cpg:", rule="R4.8",
  note="Plane in ConvexPolygon returns a NotImplementedError object")
F("C04", "documented-type-exceeded", INTER, "inter_point_segment", "        return p\n", "        return s\n", rule="R4.6")
F("C04", "attr-of-wrong-class", INTER, "inter_line_halfline", "inter = intersection(l, h.line)", "inter = intersection(l, h.plane)",
  rule="R4.2", note="HalfLine has no .plane")
F("C04", "segment-segment-early-exit-after-a", INTER, "inter_segment_segment",
  "        if b.start_point in a:\n            point_set.add(b.start_point)",
  "        if len(point_set) == 2:\n            return Segment(*point_set)\n        if b.start_point in a:\n            point_set.add(b.start_point)", rule="R4.9",
  note="result returned after a's end points only")
F("C04", "polygon-early-exit-after-a-vertices", INTER, "inter_convexpolygon_convexpolygon",
  "        for pb in b.points:\n            if pb in a:\n                point_set.add(pb)",
  "        if len(point_set) == len(a.points):\n            return a\n        for pb in b.points:\n            if pb in a:\n                point_set.add(pb)", rule="R4.9")
CAT["C04"].pop()  # `return a` of an operand parameter is exempt (a inside b is a complete answer); kept out
N("C04", "reorder-disjoint-rows", INTER, "intersection",
  "    elif isinstance(a, Point) and isinstance(b, Line):\n        return inter_point_line(a, b)\n    elif isinstance(a, Line) and isinstance(b, Point):\n        return inter_point_line(b, a)\n    elif isinstance(a, Point) and isinstance(b, Plane):\n        return inter_point_plane(a, b)\n    elif isinstance(a, Plane) and isinstance(b, Point):\n        return inter_point_plane(b, a)",
  "    elif isinstance(a, Point) and isinstance(b, Plane):\n        return inter_point_plane(a, b)\n    elif isinstance(a, Plane) and isinstance(b, Point):\n        return inter_point_plane(b, a)\n    elif isinstance(a, Point) and isinstance(b, Line):\n        return inter_point_line(a, b)\n    elif isinstance(a, Line) and isinstance(b, Point):\n        return inter_point_line(b, a)")
N("C04", "rename-handler-params", INTER, "inter_point_plane", "pnt", "q0", count=0)
N("C04", "demorgan", INTER, "inter_segment_convexpolygon",
  "        if not inter_l_p in a or not inter_l_p in b:\n            return None\n        else:\n            return inter_l_p",
  "        if inter_l_p in a and inter_l_p in b:\n            return inter_l_p\n        else:\n            return None")
N("C04", "reorder-switch-arms", INTER, "inter_line_segment",
  "    elif isinstance(inter, Line):\n        return s\n    elif isinstance(inter, Point):\n        return intersection(inter, s)",
  "    elif isinstance(inter, Point):\n        return intersection(inter, s)\n    elif isinstance(inter, Line):\n        return s")
N("C04", "implicit-none", INTER, "inter_point_point", "    else:\n        return None", "")
N("C04", "other-exception-message", INTER, "intersection", "'not implement intersecting %s with %s'", "'unsupported operands: %s and %s'")
N("C04", "swap-and-operands", INTER, "inter_segment_segment", "if inter_l_l in a and inter_l_l in b:", "if inter_l_l in b and inter_l_l in a:")
N("C04", "isinstance-tuple", INTER, "inter_segment_convexpolygon",
  "elif isinstance(inter_l_cpg, Point) or isinstance(inter_l_cpg, Segment):", "elif isinstance(inter_l_cpg, (Point, Segment)):")

# =========================================================================== C15
F("C15", "parallelogram-cross-product-guard", G + "polygon.py", "ConvexPolygon.Parallelogram", "elif v1.parallel(v2):", "elif v1.cross(v2) == Vector.zero():",
  rule="R15.1", note="absolute test of a degree-(1,1) quantity instead of a direction test")
F("C15", "parallelepiped-cross-product-guard", G + "polyhedron.py", "ConvexPolyhedron.Parallelepiped", "v1.parallel(v2) or", "v1.cross(v2).length() < get_eps() or", rule="R15.1")
N("C15", "parallelogram-unit-cross-guard", G + "polygon.py", "ConvexPolygon.Parallelogram", "elif v1.parallel(v2):",
  "elif v1.parallel(v2) or v1.normalized().cross(v2.normalized()) == Vector.zero():", note="degree 0 in both vectors")
F("C15", "delete-line-guard", G + "line.py", "Line.__init__",
  "    if self.dv == Vector.zero():\n        raise ValueError('Invalid Line, Vector(0 | 0 | 0)')", "    pass", rule="R15.1")
F("C15", "line-guard-exact", G + "line.py", "Line.__init__", "if self.dv == Vector.zero():",
  "if self.dv[0] == 0 and self.dv[1] == 0 and self.dv[2] == 0:", rule="R15.1", note="guard no longer tolerance-aware")
F("C15", "segment-pp-guard-deleted", G + "segment.py", "Segment.__init__",
  "        if a == b:\n            raise ValueError('Cannot initialize a Segment with two identical Points')\n", "", rule="R15.1")
F("C15", "segment-pv-guard-negative", G + "segment.py", "Segment.__init__", "if b.length() < get_eps():", "if b.length() < 0:", rule="R15.1")
F("C15", "halfline-pv-guard-deleted", G + "halfline.py", "HalfLine.__init__",
  "        if b.length() < get_eps():\n            raise ValueError('Cannot initialize a HalfLine with the length of Vector is 0')\n", "", rule="R15.1")
F("C15", "halfline-identity-test", G + "halfline.py", "HalfLine.__init__", "        if a == b:", "        if a is b:", rule="R15.1",
  note="identity instead of tolerance equality")
F("C15", "segment-else-returns", G + "segment.py", "Segment.__init__",
  "        raise ValueError('Cannot create segment with type:%s and %s' % (type(a), type(b)))", "        return None", rule="R15.2")
F("C15", "polygon-count-2", G + "polygon.py", "ConvexPolygon.__init__", "if len(points) < 3:", "if len(points) < 2:", rule="R15.1")
F("C15", "polygon-count-deleted", G + "polygon.py", "ConvexPolygon.__init__",
  "    if len(points) < 3:\n        raise ValueError('Cannot build a polygon with number of points smaller than 3')\n", "", rule="R15.1")
F("C15", "coplanarity-if-false", G + "polygon.py", "ConvexPolygon._check_and_sort_points", "if not point in self.plane:", "if False:", rule="R15.1")
F("C15", "coplanarity-continue-first", G + "polygon.py", "ConvexPolygon._check_and_sort_points",
  "    for point in self.points:\n        if not point in self.plane:",
  "    for point in self.points:\n        if point == self.points[0]:\n            angle_point_dict[0.0] = point\n            continue\n        if not point in self.plane:",
  rule="R15.1", note="an iteration can complete without the check")
F("C15", "coplanarity-first-three-only", G + "polygon.py", "ConvexPolygon._check_and_sort_points",
  "if not point in self.plane:", "if not self.points[0] in self.plane:", rule="R15.1", note="guard no longer depends on the loop element")
F("C15", "check-call-dropped", G + "polygon.py", "ConvexPolygon.__init__", "    self._check_and_sort_points()", "    pass", rule="R15.1")
F("C15", "parallelogram-guard-deleted", G + "polygon.py", "ConvexPolygon.Parallelogram",
  "        elif v1.parallel(v2):\n            raise ValueError(\"The two vectors shouldn't be parallel to each other\")\n", "", rule="R15.1")
F("C15", "parallelogram-type-else-returns", G + "polygon.py", "ConvexPolygon.Parallelogram",
  "    else:\n        raise TypeError(", "    else:\n        return TypeError(", rule="R15.2")
F("C15", "parallelepiped-one-pair-dropped", G + "polyhedron.py", "ConvexPolyhedron.Parallelepiped",
  "elif v1.parallel(v2) or v1.parallel(v3) or v2.parallel(v3):", "elif v1.parallel(v2) or v1.parallel(v3):", rule="R15.1")
F("C15", "pyramid-guard-deleted", G + "pyramid.py", "Pyramid.__init__",
  "        if self.point in self.convex_polygon.plane:\n            raise ValueError('Cannot create Pyramid with point on the polygon plane')\n", "", rule="R15.1")
F("C15", "pyramid-guard-wrong-subject", G + "pyramid.py", "Pyramid.__init__", "if self.point in self.convex_polygon.plane:",
  "if self.convex_polygon.points[0] in self.convex_polygon.plane and False:", rule="R15.1")
F("C15", "euler-check-dropped", G + "polyhedron.py", "ConvexPolyhedron.__init__", "    if not self._euler_check():", "    if False:", rule="R15.1")
F("C15", "normal-check-dropped", G + "polyhedron.py", "ConvexPolyhedron.__init__",
  "    if not self._check_normal():\n        raise ValueError('Check Normal Fails For The Convex Polyhedron')\n", "", rule="R15.1")
F("C15", "circle-n-1", G + "polygon.py", "get_circle_point_list", "if n <= 2:", "if n <= 1:", rule="R15.1")
F("C15", "circle-n-after-return", G + "polygon.py", "get_circle_point_list", "    if n <= 2:", "    if n <= 2 and radius < 0:", rule="R15.1")
F("C15", "pointlist-count-deleted", C + "aux_calc.py", "get_segment_from_point_list",
  "    if len(point_list) < 2:\n        raise ValueError('The length of point list mush be no less than 2')\n", "", rule="R15.1")
F("C15", "pointlist-collinearity-deleted", C + "aux_calc.py", "get_segment_from_point_list",
  "        if not vi.parallel(v0):\n            raise ValueError('The points are not on a line')\n", "", rule="R15.1")
F("C15", "distance-else-returns", C + "distance.py", "distance", "    else:\n        raise NotImplementedError(", "    else:\n        return NotImplementedError(")
F("C15", "angle-else-none", C + "angle.py", "angle",
  "    else:\n        raise NotImplementedError('Not implement angle function between %s and %s' % (type(a), type(b)))", "    else:\n        return None", rule="R15.2")
F("C15", "volume-else-zero", C + "volume.py", "volume", "        raise ValueError('No attribut volume for this object')", "        return 0", rule="R15.2")
F("C15", "intersection-else-none", INTER, "intersection",
  "    else:\n        raise NotImplementedError('not implement intersecting %s with %s' % (type(a), type(b)))", "    else:\n        return None", rule="R15.2")
F("C15", "point-move-return", G + "point.py", "Point.move",
  "        raise NotImplementedError('The second parameter for move function must be Vector')", "        return self", rule="R15.2")
F("C15", "plane-move-return-again", G + "plane.py", "Plane.move", "        raise NotImplementedError(", "        return NotImplementedError(")
F("C15", "polyhedron-move-guard-dropped", G + "polyhedron.py", "ConvexPolyhedron.move", "if isinstance(v, Vector):", "if v is not None:", rule="R15.2")
F("C15", "segment-forgets-field", G + "segment.py", "Segment.__init__",
  "        self.line = Line(a, b)\n        self.start_point = a\n        self.end_point = Point(a.pv() + b)", "        self.line = Line(a, b)\n        self.start_point = a", rule="R15.4")
N("C15", "line-guard-rewritten", G + "line.py", "Line.__init__", "if self.dv == Vector.zero():", "if Vector.zero() == self.dv:")
N("C15", "line-guard-null-vector", G + "line.py", "Line.__init__",
  "    if self.dv == Vector.zero():\n        raise ValueError('Invalid Line, Vector(0 | 0 | 0)')",
  "    zero = Vector.zero()\n    degenerate = self.dv == zero\n    if degenerate:\n        raise ValueError('Invalid Line, Vector(0 | 0 | 0)')")
N("C15", "segment-guards-reordered", G + "segment.py", "Segment.__init__",
  "        if a == b:\n            raise ValueError('Cannot initialize a Segment with two identical Points')\n        self.line = Line(a, b)\n        self.start_point = a\n        self.end_point = b",
  "        self.start_point = a\n        self.end_point = b\n        if a == b:\n            raise ValueError('Cannot initialize a Segment with two identical Points')\n        self.line = Line(a, b)")
N("C15", "count-guard-ge", G + "polygon.py", "ConvexPolygon.__init__", "if len(points) < 3:", "if not len(points) >= 3:")
N("C15", "count-guard-le2", G + "polygon.py", "ConvexPolygon.__init__", "if len(points) < 3:", "if len(points) <= 2:")
N("C15", "circle-n-lt3", G + "polygon.py", "get_circle_point_list", "if n <= 2:", "if n < 3:")
N("C15", "coplanarity-not-in", G + "polygon.py", "ConvexPolygon._check_and_sort_points", "if not point in self.plane:", "if point not in self.plane:")
N("C15", "pyramid-guard-local", G + "pyramid.py", "Pyramid.__init__", "        if self.point in self.convex_polygon.plane:",
  "        base_plane = self.convex_polygon.plane\n        if p in base_plane:")
N("C15", "move-else-typeerror", G + "line.py", "Line.move",
  "raise NotImplementedError('The second parameter for move function must be Vector')", "raise TypeError('move() needs a Vector')")
N("C15", "euler-inline", G + "polyhedron.py", "ConvexPolyhedron.__init__", "    if not self._euler_check():",
  "    closed = self._euler_check()\n    if not closed:")

# =========================================================================== C19
F("C19", "isclose-hidden-relative-tolerance", U + "vector.py", "Vector.__eq__", "abs(self._v[0] - other._v[0]) < get_eps() and",
  "math.isclose(self._v[0], other._v[0], abs_tol=get_eps()) and", rule="R19.3", note="rel_tol=1e-9 stays active")
N("C19", "isclose-relative-tolerance-off", U + "vector.py", "Vector.__eq__", "abs(self._v[0] - other._v[0]) < get_eps() and",
  "math.isclose(self._v[0], other._v[0], rel_tol=0, abs_tol=get_eps()) and")
F("C19", "stale-sig-in-point-hash", G + "point.py", None,
  "from ..utils.constant import get_sig_figures, get_eps", "from ..utils.constant import get_sig_figures, get_eps, SIG_FIGURES")
CAT["C19"].pop()  # (import alone is harmless; the real mutant follows)
F("C19", "stale-sig-in-plane-hash", G + "plane.py", "Plane.__hash__", "round(offset, get_sig_figures())", "round(offset, SIG_FIGURES)", rule="R19.1")
F("C19", "stale-eps-in-plane-contains", G + "plane.py", "Plane.__contains__", "< get_eps()", "< FLOAT_EPS", rule="R19.1")
F("C19", "module-level-copy", U + "solver.py", None, "def null(f):\n    return abs(f) < get_eps()",
  "EPS = get_eps()\n\ndef null(f):\n    return abs(f) < EPS", rule="R19.1")
F("C19", "default-argument-copy", U + "solver.py", None, "def null(f):\n    return abs(f) < get_eps()",
  "def null(f, eps=get_eps()):\n    return abs(f) < eps", rule="R19.1")
F("C19", "cached-on-self", G + "segment.py", "Segment.__init__", "    a = copy.deepcopy(a)\n", "    a = copy.deepcopy(a)\n    self.eps = get_eps()\n", rule="R19.1")
F("C19", "class-level-copy", G + "point.py", None, "    class_level = 0\n", "    class_level = 0\n    digits = get_sig_figures()\n", rule="R19.1")
F("C19", "hard-coded-precision", G + "point.py", "Point.__hash__", "round(self.z, get_sig_figures()))", "round(self.z, 10))", rule="R19.4",
  count=1)
F("C19", "literal-tolerance", U + "vector.py", "Vector.orthogonal", "abs(self * other) < get_eps()", "abs(self * other) < 1e-10", rule="R19.3")
F("C19", "literal-tolerance-halfline", G + "halfline.py", "HalfLine.__contains__", "return v1 * self.vector > -get_eps()", "return v1 * self.vector > -1e-09", rule="R19.3")
F("C19", "setter-one-global", U + "constant.py", "set_eps", "\n    SIG_FIGURES = round(log10(1 / eps))", "", rule="R19.2")
F("C19", "setter-wrong-formula", U + "constant.py", "set_sig_figures", "FLOAT_EPS = 1 / 10 ** SIG_FIGURES", "FLOAT_EPS = 1 / 10 * SIG_FIGURES", rule="R19.2")
F("C19", "setter-sign-error", U + "constant.py", "set_eps", "SIG_FIGURES = round(log10(1 / eps))", "SIG_FIGURES = round(log10(eps))", rule="R19.2")
F("C19", "setter-missing-global-decl", U + "constant.py", "set_eps", "global FLOAT_EPS, SIG_FIGURES", "global FLOAT_EPS", rule="R19.2")
F("C19", "default-drift", U + "constant.py", "set_eps", "def set_eps(eps=1e-10):", "def set_eps(eps=1e-09):", rule="R19.2")
F("C19", "exact-zero-denominator", INTER, "inter_line_plane", "    elif parallel(l, p):\n        return None",
  "    elif p.n * l.dv == 0:\n        return None", rule="R19.5")
F("C19", "exact-truthiness-of-length", G + "segment.py", "Segment.__init__", "        if a == b:", "        if not Vector(a, b).length():", rule="R19.5")
F("C19", "exact-coordinate-compare", G + "point.py", "Point.__eq__", "return abs(self.x - other.x) < get_eps() and", "return self.x == other.x and", rule="R19.5")
CAT["C19"].pop()  # (an `==` inside a return expression is not a decision position of R19.5; C08 covers Point.__eq__)
N("C19", "tolerant-zero-denominator", INTER, "inter_line_plane", "    elif parallel(l, p):\n        return None",
  "    elif null(p.n * l.dv):\n        return None")
N("C19", "integer-count-compare", INTER, "inter_line_plane", "    elif parallel(l, p):\n        return None",
  "    elif len([l, p]) == 0 or parallel(l, p):\n        return None")
N("C19", "getter-into-local", G + "point.py", "Point.__eq__", "    if isinstance(other, Point):\n        return abs(self.x - other.x) < get_eps() and",
  "    if isinstance(other, Point):\n        eps = get_eps()\n        return abs(self.x - other.x) < eps and")
N("C19", "precision-into-local", G + "plane.py", "Plane.oriented_hash",
  "    return hash(('Plane', self.n, round(self.n * self.p.pv(), get_sig_figures())))", "    digits = get_sig_figures()\n    return hash(('Plane', self.n, round(self.n * self.p.pv(), digits)))")
N("C19", "setter-equivalent-formula", U + "constant.py", "set_eps", "SIG_FIGURES = round(log10(1 / eps))", "SIG_FIGURES = round(-log10(eps))")
N("C19", "setter-from-param", U + "constant.py", "set_sig_figures", "FLOAT_EPS = 1 / 10 ** SIG_FIGURES", "FLOAT_EPS = 10 ** (-sig_figures)")
N("C19", "module-attribute-read-is-live", U + "solver.py", None, "from .constant import get_eps\n\ndef shape(m):",
  "from .constant import get_eps\nfrom . import constant\n\ndef shape(m):")
N("C19", "coarser-literal", G + "polygon.py", "get_circle_point_list", "angle_i = math.pi * 2 / n * i", "angle_i = math.pi * 2.0 / n * i")

# =========================================================================== C05
F("C05", "segment-in-polygon-start-twice", G + "polygon.py", "ConvexPolygon.__contains__",
  "return other.start_point in self and other.end_point in self", "return other.start_point in self and other.start_point in self", rule="R5.2")
F("C05", "segment-in-polyhedron-or", G + "polyhedron.py", "ConvexPolyhedron.__contains__",
  "return other.start_point in self and other.end_point in self", "return other.start_point in self or other.end_point in self", rule="R5.2")
F("C05", "segment-in-line-one-point", G + "segment.py", "Segment.in_",
  "    if isinstance(other, Line):\n        return self.start_point in other and self.end_point in other",
  "    if isinstance(other, Line):\n        return self.start_point in other", rule="R5.2")
F("C05", "segment-in-halfline-end-only", G + "halfline.py", "HalfLine.__contains__",
  "return other.start_point in self and other.end_point in self", "return other.end_point in self", rule="R5.2")
F("C05", "halfline-in-plane-no-direction", G + "halfline.py", "HalfLine.in_",
  "return self.point in other and self.vector.orthogonal(other.n)", "return self.point in other", rule="R5.2")
F("C05", "halfline-in-plane-parallel-normal", G + "halfline.py", "HalfLine.in_",
  "self.vector.orthogonal(other.n)", "self.vector.parallel(other.n)", rule="R5.2")
F("C05", "halfline-in-halfline-no-origin", G + "halfline.py", "HalfLine.__contains__",
  "return self.line == other.line and other.point in self and (self.vector * other.vector > -get_eps())",
  "return self.line == other.line and self.vector * other.vector > -get_eps()", rule="R5.2")
F("C05", "line-in-plane-direction-only", G + "plane.py", "Plane.__contains__",
  "return Point(other.sv) in self and self.parallel(other)", "return self.parallel(other)", rule="R5.2")
F("C05", "polygon-in-polyhedron-first-vertex", G + "polyhedron.py", "ConvexPolyhedron.__contains__",
  "        for point in other.points:\n            if not point in self:\n                return False\n        return True",
  "        for point in other.points:\n            if not point in self:\n                return False\n            return True\n        return True", rule="R5.2",
  note="returns after the first vertex")
F("C05", "polygon-in-polyhedron-any", G + "polyhedron.py", "ConvexPolyhedron.__contains__",
  "        for point in other.points:\n            if not point in self:\n                return False\n        return True",
  "        for point in other.points:\n            if point in self:\n                return True\n        return False", rule="R5.2")
F("C05", "class-level-changed", G + "segment.py", None, "    class_level = 3\n", "    class_level = 1\n", rule="R5.1",
  note="Segment in Line no longer forwards to Segment.in_")
F("C05", "segment-in-plane-to-fallback", G + "segment.py", "Segment.in_", "    elif isinstance(other, Plane):", "    elif isinstance(other, Point):", rule="R5.1")
F("C05", "polygon-in-plane-raises", G + "polygon.py", "ConvexPolygon.in_", "if isinstance(other, Plane):", "if isinstance(other, Line):", rule="R5.1")
F("C05", "halfline-contains-drops-segment", G + "halfline.py", "HalfLine.__contains__", "    if isinstance(other, Segment):", "    if isinstance(other, Plane):", rule="R5.1")
F("C05", "polygon-point-drops-plane", G + "polygon.py", "ConvexPolygon.__contains__", "        return r1 and r2", "        return r2", rule="R5.3")
F("C05", "segment-point-drops-carrier", G + "segment.py", "Segment.__contains__",
  "return r1 and reletive_length > -get_eps() and (reletive_length < 1 + get_eps())", "return reletive_length > -get_eps() and reletive_length < 1 + get_eps()", rule="R5.3")
F("C05", "halfline-point-unguarded", G + "halfline.py", "HalfLine.__contains__",
  "        if r1:\n            v1 = Vector(self.point, other)\n            return v1 * self.vector > -get_eps()\n        else:\n            return False",
  "        v1 = Vector(self.point, other)\n        return v1 * self.vector > -get_eps()", rule="R5.3")
F("C05", "polyhedron-point-first-face", G + "polyhedron.py", "ConvexPolyhedron.__contains__",
  "            if direction_vector * polygon.plane.n > get_eps():\n                return False\n        return True",
  "            if direction_vector * polygon.plane.n > get_eps():\n                return False\n            return True\n        return True", rule="R5.3")
F("C05", "polyhedron-point-any-face", G + "polyhedron.py", "ConvexPolyhedron.__contains__",
  "            if direction_vector * polygon.plane.n > get_eps():\n                return False\n        return True",
  "            if direction_vector * polygon.plane.n <= get_eps():\n                return True\n        return False", rule="R5.3")
F("C05", "polygon-point-exact-threshold", G + "polygon.py", "ConvexPolygon.__contains__", "if vec * v1 < -get_eps():", "if vec * v1 < 0:", rule="R5.5",
  note="boundary points rejected by float noise")
F("C05", "polyhedron-point-exact-threshold", G + "polyhedron.py", "ConvexPolyhedron.__contains__",
  "if direction_vector * polygon.plane.n > get_eps():", "if direction_vector * polygon.plane.n > 0:", rule="R5.5")
F("C05", "halfline-point-exact-threshold", G + "halfline.py", "HalfLine.__contains__", "> -get_eps()", "> 0", rule="R5.5", count=0)
F("C05", "polyhedron-point-early-accept", G + "polyhedron.py", "ConvexPolyhedron.__contains__",
  "        for polygon in self.convex_polygons:\n            direction_vector",
  "        if other.distance(self.center_point) < 1:\n            return True\n        for polygon in self.convex_polygons:\n            direction_vector", rule="R5.3")
N("C05", "polyhedron-point-exact-precheck-falls-through", G + "polyhedron.py", "ConvexPolyhedron.__contains__",
  "        for polygon in self.convex_polygons:\n            direction_vector",
  "        if other.distance(self.center_point) < 0:\n            pass\n        for polygon in self.convex_polygons:\n            direction_vector")
N("C05", "polygon-point-early-exit", G + "polygon.py", "ConvexPolygon.__contains__", "        r1 = other in self.plane\n",
  "        r1 = other in self.plane\n        if not r1:\n            return False\n")
N("C05", "segment-point-carrier-first", G + "segment.py", "Segment.__contains__", "        r1 = other in self.line\n",
  "        if not other in self.line:\n            return False\n        r1 = True\n")
N("C05", "swap-conjuncts", G + "polygon.py", "ConvexPolygon.__contains__",
  "return other.start_point in self and other.end_point in self", "return other.end_point in self and other.start_point in self")
N("C05", "conjuncts-via-locals", G + "segment.py", "Segment.__contains__",
  "        return other.start_point in self and other.end_point in self",
  "        r_s = other.start_point in self\n        r_e = other.end_point in self\n        return r_s and r_e")
N("C05", "all-over-endpoints", G + "polyhedron.py", "ConvexPolyhedron.__contains__",
  "return other.start_point in self and other.end_point in self", "return all((p in self for p in (other.start_point, other.end_point)))")
N("C05", "isinstance-order", G + "segment.py", "Segment.in_",
  "    if isinstance(other, Line):\n        return self.start_point in other and self.end_point in other\n    elif isinstance(other, Plane):\n        return self.start_point in other and self.end_point in other",
  "    if isinstance(other, Plane):\n        return self.start_point in other and self.end_point in other\n    elif isinstance(other, Line):\n        return self.start_point in other and self.end_point in other")
N("C05", "fallback-raises-typeerror", G + "line.py", "Line.__contains__", "raise NotImplementedError('')", "raise TypeError('unsupported')")
N("C05", "direction-swapped-receiver", G + "halfline.py", "HalfLine.in_", "self.vector.orthogonal(other.n)", "other.n.orthogonal(self.vector)")

# =========================================================================== C10
DIST = C + "distance.py"
F("C10", "delete-swapped-branch", DIST, "distance",
  "    elif isinstance(a, Line) and isinstance(b, Point):\n        return distance(b, a)\n", "", rule="R10.1")
F("C10", "forward-unswapped", DIST, "distance",
  "    elif isinstance(a, Plane) and isinstance(b, Line):\n        return distance(b, a)",
  "    elif isinstance(a, Plane) and isinstance(b, Line):\n        return distance(a, b)", rule="R10.1", note="infinite recursion")
F("C10", "drop-abs", DIST, "distance", "return abs((b.sv - a.sv) * normale)", "return (b.sv - a.sv) * normale", rule="R10.2")
F("C10", "negative-literal", DIST, "distance", "        return 0.0", "        return -0.5", rule="R10.2")
F("C10", "drop-parallel-guard", DIST, "distance",
  "        if a.dv.parallel(b.dv):\n            return distance(Point(a.sv), b)\n", "", rule="R10.4")
F("C10", "one-sided-angle-guard", DIST, "distance", "        if a.dv.parallel(b.dv):", "        if a.dv.angle(b.dv) < 1e-06:", rule="R10.4",
  note="admits anti-parallel directions")
F("C10", "guard-on-other-operands", DIST, "distance", "        if a.dv.parallel(b.dv):", "        if a.dv.parallel(a.sv):", rule="R10.4")
F("C10", "method-form-swapped", G + "body.py", "GeoBody.distance", "return distance(self, other)", "return distance(other, other)", rule="R10.3")
F("C10", "mixed-pair-computed-twice", DIST, "distance",
  "    elif isinstance(a, Plane) and isinstance(b, Point):\n        return distance(b, a)",
  "    elif isinstance(a, Plane) and isinstance(b, Point):\n        return abs((b.pv() - a.p.pv()) * a.n)", rule="R10.1")
N("C10", "folded-angle-guard", DIST, "distance", "        if a.dv.parallel(b.dv):", "        if parallel(a, b):")
F("C10", "exact-dot-truthiness", DIST, "distance", "    elif isinstance(a, Line) and isinstance(b, Plane):\n        if parallel(a, b):",
  "    elif isinstance(a, Line) and isinstance(b, Plane):\n        if not a.dv * b.n:", rule="R10.6",
  note="a dot product of 1e-17 for an exactly parallel line in general orientation")
F("C10", "exact-dot-equals-zero", DIST, "distance", "    elif isinstance(a, Line) and isinstance(b, Plane):\n        if parallel(a, b):",
  "    elif isinstance(a, Line) and isinstance(b, Plane):\n        if a.dv * b.n == 0:", rule="R10.6")
F("C10", "exact-dot-through-local", DIST, "distance", "    elif isinstance(a, Line) and isinstance(b, Plane):\n        if parallel(a, b):",
  "    elif isinstance(a, Line) and isinstance(b, Plane):\n        slope = a.dv * b.n\n        if slope == 0.0:", rule="R10.6")
N("C10", "tolerant-dot-test", DIST, "distance", "    elif isinstance(a, Line) and isinstance(b, Plane):\n        if parallel(a, b):",
  "    elif isinstance(a, Line) and isinstance(b, Plane):\n        if null(a.dv * b.n):")
N("C10", "guard-receiver-swapped", DIST, "distance", "        if a.dv.parallel(b.dv):", "        if b.dv.parallel(a.dv):")
N("C10", "abs-via-local", DIST, "distance", "        return abs((b.sv - a.sv) * normale)", "        d = abs((b.sv - a.sv) * normale)\n        return d")
N("C10", "point-point-method", DIST, "distance", "        return Vector(a, b).length()", "        return a.distance(b)")
N("C10", "else-message", DIST, "distance", "'Not implemented distance between {} and {}'", "'distance: unsupported {} / {}'")
N("C10", "two-sided-raw-guard", DIST, "distance",
  "        if a.dv.parallel(b.dv):\n            return distance(Point(a.sv), b)\n        normale = a.dv.cross(b.dv).normalized()",
  "        theta = a.dv.angle(b.dv)\n        if theta < 1e-06 or theta > math.pi - 1e-06:\n            return distance(Point(a.sv), b)\n        normale = a.dv.cross(b.dv).normalized()")

# =========================================================================== C11
ANG = C + "angle.py"
F("C11", "drop-acute-line-line", ANG, "angle", "        return acute(a.dv.angle(b.dv))", "        return a.dv.angle(b.dv)", rule="R11.2")
F("C11", "drop-acute-plane-plane", ANG, "angle", "        return acute(a.n.angle(b.n))", "        return a.n.angle(b.n)", rule="R11.2")
F("C11", "drop-complement", ANG, "angle", "        return 0.5 * math.pi - rad", "        return rad", rule="R11.3")
F("C11", "complement-same-kind", ANG, "angle", "        return acute(a.n.angle(b.n))", "        return 0.5 * math.pi - acute(a.n.angle(b.n))", rule="R11.3")
F("C11", "unswap-mixed-parallel", ANG, "parallel", "        return a.dv.orthogonal(b.n)", "        return a.dv.parallel(b.n)", rule="R11.3")
F("C11", "unswap-mixed-orthogonal", ANG, "orthogonal", "        return a.dv.parallel(b.n)", "        return a.dv.orthogonal(b.n)", rule="R11.3")
F("C11", "forward-unswapped-angle", ANG, "angle", "        return angle(b, a)", "        return angle(a, b)", rule="R11.1")
F("C11", "delete-forward-parallel", ANG, "parallel",
  "    elif isinstance(a, Plane) and isinstance(b, Line):\n        return parallel(b, a)\n", "", rule="R11.1")
F("C11", "remove-clamp", U + "vector.py", "Vector.angle", "return math.acos(max(-1, min(1, cos_angle)))", "return math.acos(cos_angle)", rule="R11.4")
F("C11", "half-clamp", U + "vector.py", "Vector.angle", "return math.acos(max(-1, min(1, cos_angle)))", "return math.acos(min(1, cos_angle))", rule="R11.4")
F("C11", "acute-wrong-threshold", C + "acute.py", "acute", "if rad > 0.5 * math.pi:", "if rad > math.pi:", rule="R11.2")
F("C11", "acute-wrong-complement", C + "acute.py", "acute", "rad = math.pi - rad", "rad = 0.5 * math.pi - rad", rule="R11.2")
F("C11", "method-form-args", G + "body.py", "GeoBody.parallel", "return parallel(self, other)", "return parallel(self, self)", rule="R11.5")
F("C11", "wrong-operand-vector", ANG, "parallel", "        return a.n.parallel(b.n)", "        return a.n.parallel(a.n)", rule="ANALYSIS-ERROR",
  note="not the two operands' directions: unrecognised predicate, fails closed")
N("C11", "swap-receiver", ANG, "parallel", "        return a.dv.orthogonal(b.n)", "        return b.n.orthogonal(a.dv)")
N("C11", "pi-half-literal", ANG, "angle", "        return 0.5 * math.pi - rad", "        return math.pi / 2 - rad")
N("C11", "inline-rad", ANG, "angle", "        rad = acute(a.dv.angle(b.n))\n        return 0.5 * math.pi - rad", "        return 0.5 * math.pi - acute(a.dv.angle(b.n))")
N("C11", "orthogonal-method", ANG, "orthogonal", "        return null(a.dv * b.dv)", "        return a.dv.orthogonal(b.dv)")
N("C11", "clamp-other-nesting", U + "vector.py", "Vector.angle", "max(-1, min(1, cos_angle))", "min(1, max(-1, cos_angle))")
N("C11", "acute-ge", C + "acute.py", "acute", "if rad > 0.5 * math.pi:", "if rad >= math.pi / 2:")

# =========================================================================== C14
PG = G + "polygon.py"
PH = G + "polyhedron.py"
F("C14", "cylinder-top-cap-reversed-normal", PH, "ConvexPolyhedron.Cylinder", "top_circle = Circle(center=top_point, normal=height_vector,",
  "top_circle = Circle(center=top_point, normal=-height_vector,", rule="R14.6", note="the cap's ring is the mirror image of the side faces' ring")
F("C14", "cone-ring-other-radius", PH, "ConvexPolyhedron.Cone", "circle_point_list = get_circle_point_list(center=circle_center, normal=height_vector, radius=radius, n=n)",
  "circle_point_list = get_circle_point_list(center=circle_center, normal=height_vector, radius=radius * 2, n=n)", rule="R14.6")
N("C14", "cone-cap-scaled-normal", PH, "ConvexPolyhedron.Cone", "circle = Circle(center=circle_center, normal=height_vector,",
  "circle = Circle(center=circle_center, normal=height_vector * 2,", note="a positive multiple of the normal gives the same ring")
F("C14", "circle-moves-centre", PG, "get_circle_point_list", "copy.deepcopy(center).move(", "center.move(", rule="R14.1")
F("C14", "parallelogram-moves-base", PG, "ConvexPolygon.Parallelogram", "copy.deepcopy(base_point).move(v1), ", "base_point.move(v1), ", rule="R14.1")
F("C14", "parallelepiped-moves-base", PH, "ConvexPolyhedron.Parallelepiped", "p_diag = copy.deepcopy(base_point).move(v1).move(v2).move(v3)",
  "p_diag = base_point.move(v1).move(v2).move(v3)", rule="R14.1")
F("C14", "cylinder-moves-centre", PH, "ConvexPolyhedron.Cylinder", "top_point = copy.deepcopy(circle_center).move(height_vector)",
  "top_point = circle_center.move(height_vector)", rule="R14.1")
F("C14", "cone-negates-vector-in-place", PH, "ConvexPolyhedron.Cone", "    import copy\n", "    import copy\n    height_vector[0] = height_vector[0] * 1\n", rule="R14.1")
F("C14", "sphere-moves-centre-in-loop", PH, "ConvexPolyhedron.Sphere", "center=copy.deepcopy(center).move(height_i * z_unit_vector())",
  "center=center.move(height_i * z_unit_vector())", rule="R14.1")
F("C14", "one-sided-axis-test", PG, "get_circle_point_list", "if angle_to_x < SMALL_ANGLE or angle_to_x > math.pi - SMALL_ANGLE:",
  "if angle_to_x < SMALL_ANGLE:", rule="R14.2", note="the original defect")
F("C14", "axis-test-too-wide", PG, "get_circle_point_list", "if angle_to_x < SMALL_ANGLE or angle_to_x > math.pi - SMALL_ANGLE:",
  "if angle_to_x < 1.5 or angle_to_x > math.pi - SMALL_ANGLE:", rule="R14.2", note="within 1.5 rad of x does not exclude y")
F("C14", "same-axis-both-branches", PG, "get_circle_point_list", "        base_vector = y_unit_vector()", "        base_vector = x_unit_vector()", rule="R14.2")
F("C14", "n-guard-1", PG, "get_circle_point_list", "if n <= 2:", "if n <= 1:", rule="R14.3")
F("C14", "cylinder-no-modulo", PH, "ConvexPolyhedron.Cylinder", "end = (i + 1) % len(top_circle_point_list)", "end = i + 1", rule="R14.4")
F("C14", "cone-short-range", PH, "ConvexPolyhedron.Cone", "for i in range(len(circle_point_list)):", "for i in range(len(circle_point_list) - 1):", rule="R14.4")
F("C14", "sphere-wrong-modulus", PH, "ConvexPolyhedron.Sphere", "end = (i + 1) % n1", "end = (i + 1) % n2", rule="R14.4")
N("C14", "two-sided-via-acute-like", PG, "get_circle_point_list", "if angle_to_x < SMALL_ANGLE or angle_to_x > math.pi - SMALL_ANGLE:",
  "if angle_to_x > math.pi - SMALL_ANGLE or angle_to_x < SMALL_ANGLE:")
N("C14", "inline-angle", PG, "get_circle_point_list",
  "    angle_to_x = normal.angle(x_unit_vector())\n    if angle_to_x < SMALL_ANGLE or angle_to_x > math.pi - SMALL_ANGLE:",
  "    if normal.angle(x_unit_vector()) < SMALL_ANGLE or normal.angle(x_unit_vector()) > math.pi - SMALL_ANGLE:")
N("C14", "copy-into-local", PG, "get_circle_point_list",
  "        point_list.append(copy.deepcopy(center).move(v1 * math.cos(angle_i) + v2 * math.sin(angle_i)))",
  "        c = copy.deepcopy(center)\n        c.move(v1 * math.cos(angle_i) + v2 * math.sin(angle_i))\n        point_list.append(c)")
N("C14", "fresh-point-instead-of-copy", PH, "ConvexPolyhedron.Cone", "top_point = copy.deepcopy(circle_center).move(height_vector)",
  "top_point = Point(circle_center.pv() + height_vector)")
N("C14", "start-rename", PH, "ConvexPolyhedron.Cylinder", "start", "first", count=0)
N("C14", "n-lt-3", PG, "get_circle_point_list", "if n <= 2:", "if n < 3:")

# =========================================================================== C20
N("C20", "deepcopy-hook-structural", PG, None, "    def eq_with_normal(self, other):",
  "    def __deepcopy__(self, memo):\n        new = self.__class__.__new__(self.__class__)\n        new.points = copy.deepcopy(self.points, memo)\n        new.center_point = copy.deepcopy(self.center_point, memo)\n        new.plane = copy.deepcopy(self.plane, memo)\n        return new\n\n    def eq_with_normal(self, other):",
  note="a __deepcopy__ that deep-copies every field is the default deep copy written out")
F("C20", "deepcopy-hook-shares-plane", PG, None, "    def eq_with_normal(self, other):",
  "    def __deepcopy__(self, memo):\n        new = self.__class__.__new__(self.__class__)\n        new.points = copy.deepcopy(self.points, memo)\n        new.center_point = copy.deepcopy(self.center_point, memo)\n        new.plane = self.plane\n        return new\n\n    def eq_with_normal(self, other):", rule="R20.4",
  note="the copy refers to the original's Plane, whose point p is moved in place by the original's move()")
F("C20", "deepcopy-hook-forgets-field", PG, None, "    def eq_with_normal(self, other):",
  "    def __deepcopy__(self, memo):\n        new = self.__class__.__new__(self.__class__)\n        new.points = copy.deepcopy(self.points, memo)\n        new.plane = copy.deepcopy(self.plane, memo)\n        return new\n\n    def eq_with_normal(self, other):", rule="R20.4")
N("C20", "deepcopy-hook-point-dict", G + "point.py", None, "    def __repr__(self):",
  "    def __deepcopy__(self, memo):\n        new = self.__class__.__new__(self.__class__)\n        new.__dict__.update(self.__dict__)\n        return new\n\n    def __repr__(self):",
  note="the coordinates are numbers: sharing them is copying them")
F("C20", "deepcopy-hook-vector-shares-list", U + "vector.py", None, "    def __repr__(self):",
  "    def __deepcopy__(self, memo):\n        new = self.__class__.__new__(self.__class__)\n        new.__dict__.update(self.__dict__)\n        return new\n\n    def __repr__(self):", rule="R20.4",
  note="the component list _v is shared: v[0] = 1 on the original changes the copy")
N("C20", "deepcopy-hook-vector-fresh-list", U + "vector.py", None, "    def __repr__(self):",
  "    def __deepcopy__(self, memo):\n        new = self.__class__.__new__(self.__class__)\n        new.__dict__.update(self.__dict__)\n        new._v = list(self._v)\n        return new\n\n    def __repr__(self):")
F("C20", "segment-no-deepcopy", G + "segment.py", "Segment.__init__", "    a = copy.deepcopy(a)\n    b = copy.deepcopy(b)\n", "", rule="R20.3")
F("C20", "halfline-one-deepcopy", G + "halfline.py", "HalfLine.__init__", "    a = copy.deepcopy(a)\n", "", rule="R20.3")
F("C20", "polygon-no-deepcopy", PG, "ConvexPolygon.__init__", "points = copy.deepcopy(pts)", "points = pts", rule="R20.3")
F("C20", "polyhedron-no-deepcopy", PH, "ConvexPolyhedron.__init__", "self.convex_polygons = list(copy.deepcopy(convex_polygons))",
  "self.convex_polygons = list(convex_polygons)", rule="R20.3")
F("C20", "polygon-shallow-copy", PG, "ConvexPolygon.__init__", "points = copy.deepcopy(pts)", "points = list(pts)", rule="R20.3")
F("C20", "line-keeps-point-vector", G + "line.py", "Line.__init__", "        self.dv = b.pv() - self.sv", "        self.dv = b.pv() - self.sv\n        self.anchor = b",
  rule="R20.3")
F("C20", "query-moves-operand", C + "aux_calc.py", "get_segment_from_point_list", "p_start = copy.deepcopy(p0).move(", "p_start = p0.move(", rule="R20.1")
F("C20", "intersection-handler-moves-operand", INTER, "inter_point_segment", "    if p in s:", "    s.start_point.move(Vector(0, 0, 0))\n    if p in s:", rule="R20.1")
F("C20", "area-memo-on-self", PG, "ConvexPolygon.area", "    return area", "    self._area_cache = area\n    return area", rule="R20.1")
F("C20", "module-level-cache", C + "distance.py", None, "def distance(a, b):", "_CACHE = {}\n\ndef distance(a, b):\n    _CACHE[id(a), id(b)] = None", rule="R20.1", count=1)
F("C20", "eq-sorts-operand", PG, "ConvexPolygon.__eq__", "        return hash(self) == hash(other)", "        other.points = tuple(sorted(other.points, key=hash))\n        return hash(self) == hash(other)", rule="R20.1")
F("C20", "hash-normalises-in-place", G + "halfline.py", "HalfLine.__hash__", "    return hash(", "    self.vector = self.vector.normalized()\n    return hash(", rule="R20.1")
F("C20", "contains-appends", PH, "ConvexPolyhedron.__contains__", "    if isinstance(other, Point):\n", "    if isinstance(other, Point):\n        self.point_set.add(other)\n", rule="R20.1")
F("C20", "solve-on-stored-matrix", G + "plane.py", "Plane.parametric", "s = solve([list(self.n) + [0]])", "self._m = [list(self.n) + [0]]\n    s = solve(self._m)", rule="R20.1")
F("C20", "move-mutates-vector", G + "point.py", "Point.move", "        self.x += v[0]", "        v[0] = v[0] + 0\n        self.x += v[0]", rule="R20.1")
F("C20", "global-counter", C + "angle.py", None, "def angle(a, b):", "N_CALLS = 0\n\ndef angle(a, b):\n    global N_CALLS\n    N_CALLS += 1", rule="R20.2")
F("C20", "class-level-list", G + "segment.py", None, "    class_level = 3\n", "    class_level = 3\n    registry = []\n", rule="R20.2")
F("C20", "deepcopy-hook", G + "point.py", None, "    def pv(self):", "    def __deepcopy__(self, memo):\n        return self\n\n    def pv(self):", rule="R20.4")
F("C20", "eq-by-identity", G + "point.py", "Point.__eq__", "    if isinstance(other, Point):", "    if self is not other:\n        return False\n    if isinstance(other, Point):", rule="R20.4")
N("C20", "eq-identity-fast-path", G + "point.py", "Point.__eq__", "    if isinstance(other, Point):", "    if self is other:\n        return True\n    if isinstance(other, Point):",
  note="a reflexive fast path: two distinct objects are compared exactly as before")
F("C20", "helper-mutates-through-alias", C + "aux_calc.py", "points_in_a_line", "        p0 = points[0]\n", "        p0 = points[0]\n        q = p0\n        q.x += 0\n", rule="R20.1")
N("C20", "copy-then-alias", G + "segment.py", "Segment.__init__", "    a = copy.deepcopy(a)\n    b = copy.deepcopy(b)\n", "    a0 = copy.deepcopy(a)\n    b0 = copy.deepcopy(b)\n    a = a0\n    b = b0\n")
N("C20", "deepcopy-of-tuple", G + "halfline.py", "HalfLine.__init__", "    a = copy.deepcopy(a)\n    b = copy.deepcopy(b)\n", "    a, b = copy.deepcopy((a, b))\n")
N("C20", "local-set-mutation", INTER, "inter_segment_segment", "        point_set = set()\n", "        point_set = set()\n        point_set.add(Point(a.start_point.pv()))\n        point_set.clear()\n")
N("C20", "fresh-point-moved", C + "aux_calc.py", "get_segment_from_point_list", "p_start = copy.deepcopy(p0).move(", "p_start = Point(p0.pv()).move(")
N("C20", "sorted-copy-in-eq", PG, "ConvexPolygon.__eq__", "        return hash(self) == hash(other)", "        _ = sorted(other.points, key=hash)\n        return hash(self) == hash(other)")
N("C20", "solve-on-literal-local", G + "plane.py", "Plane.parametric", "s = solve([list(self.n) + [0]])", "m = [list(self.n) + [0]]\n    s = solve(m)")
N("C20", "polygon-copy-elementwise", PG, "ConvexPolygon.__init__", "points = copy.deepcopy(pts)", "points = [copy.deepcopy(p) for p in pts]")

# =========================================================================== C07
F("C07", "polygon-forgets-center", PG, "ConvexPolygon.move", "        self.center_point = self._get_center_point()\n", "", rule="R7.1")
F("C07", "polygon-forgets-plane", PG, "ConvexPolygon.move", "        self.plane = Plane(self.points[0], self.points[1], self.points[2])\n", "", rule="R7.1")
F("C07", "polygon-plane-before-points", PG, "ConvexPolygon.move",
  "        self.points = tuple(point_list)\n        self.plane = Plane(self.points[0], self.points[1], self.points[2])",
  "        self.plane = Plane(self.points[0], self.points[1], self.points[2])\n        self.points = tuple(point_list)", rule="R7.1",
  note="plane rebuilt from the stale vertex tuple")
F("C07", "polygon-stale-reassign", PG, "ConvexPolygon.move", "        self.points = tuple(point_list)", "        self.points = tuple(self.points)", rule="R7.1")
CAT["C07"].pop()  # Point.move mutates the shared Point objects in place, so the old tuple is moved too: behaviour-neutral
F("C07", "point-axis-slip", G + "point.py", "Point.move", "        self.y += v[1]", "        self.y += v[0]", rule="R7.1")
F("C07", "point-forgets-z", G + "point.py", "Point.move", "        self.z += v[2]\n", "", rule="R7.1")
F("C07", "line-two-axes", G + "line.py", "Line.move", "        self.sv[2] += v[2]\n", "", rule="R7.1")
F("C07", "line-axis-slip", G + "line.py", "Line.move", "        self.sv[1] += v[1]", "        self.sv[1] += v[2]", rule="R7.1")
F("C07", "plane-no-move", G + "plane.py", "Plane.move", "        self.p.move(v)\n", "", rule="R7.1")
F("C07", "segment-forgets-line", G + "segment.py", "Segment.move", "        self.line = Line(self.start_point, self.end_point)\n", "", rule="R7.1",
  note="the original defect")
F("C07", "segment-only-start", G + "segment.py", "Segment.move", "        self.end_point.move(v)\n", "", rule="R7.1")
F("C07", "segment-line-before-move", G + "segment.py", "Segment.move",
  "        self.start_point.move(v)\n        self.end_point.move(v)\n        self.line = Line(self.start_point, self.end_point)",
  "        self.line = Line(self.start_point, self.end_point)\n        self.start_point.move(v)\n        self.end_point.move(v)", rule="R7.1")
F("C07", "halfline-forgets-line", G + "halfline.py", "HalfLine.move", "        self.line = Line(self.point, self.vector)\n", "", rule="R7.1")
F("C07", "segment-returns-half", G + "segment.py", "Segment.move", "return Segment(self.start_point, self.end_point)",
  "return Segment(self.start_point, self.start_point)", rule="R7.2")
F("C07", "polygon-returns-none", PG, "ConvexPolygon.move", "        return ConvexPolygon(self.points)", "        pass", rule="R7.2")
F("C07", "line-returns-self-class-wrong", G + "line.py", "Line.move", "return Line(self.sv, self.dv)", "return self.sv", rule="R7.2")
F("C07", "polyhedron-forgets-pyramids", PH, "ConvexPolyhedron.move", "            self.pyramid_set.add(Pyramid(convex_polygon, self.center_point, direct_call=False))\n", "", rule="R7.1")
CAT["C07"].pop()  # pyramid_set is reset to an empty set: 'no pyramids' is caught by C06 accumulation, not by staleness
F("C07", "polyhedron-keeps-old-pyramids", PH, "ConvexPolyhedron.move", "        self.pyramid_set = set()\n", "", rule="R7.1")
F("C07", "polyhedron-forgets-center", PH, "ConvexPolyhedron.move", "        self.center_point = self._get_center_point()\n", "", rule="R7.1")
F("C07", "polyhedron-center-before-points", PH, "ConvexPolyhedron.move",
  "        self.point_set = set()\n        self.segment_set = set()\n        self.pyramid_set = set()\n",
  "        self.center_point = self._get_center_point()\n        self.point_set = set()\n        self.segment_set = set()\n        self.pyramid_set = set()\n",
  rule="R7.1")
CAT["C07"].pop()  # the later assignment refreshes the centre again: neutral
F("C07", "polyhedron-stale-segments", PH, "ConvexPolyhedron.move", "        self.segment_set = set()\n", "", rule="R7.1")
F("C07", "move-accepts-anything", G + "halfline.py", "HalfLine.move", "    if isinstance(v, Vector):", "    if isinstance(v, Vector) or True:", rule="ANALYSIS-ERROR")
CAT["C07"].pop()
F("C07", "move-else-returns-self", G + "segment.py", "Segment.move", "        raise NotImplementedError('The second parameter for move function must be Vector')", "        return self", rule="R7.3")
N("C07", "segment-move-order", G + "segment.py", "Segment.move", "        self.start_point.move(v)\n        self.end_point.move(v)", "        self.end_point.move(v)\n        self.start_point.move(v)")
N("C07", "line-rebuild-sv", G + "line.py", "Line.move", "        self.sv[0] += v[0]\n        self.sv[1] += v[1]\n        self.sv[2] += v[2]", "        self.sv = self.sv + v")
N("C07", "plane-reassign-point", G + "plane.py", "Plane.move", "        self.p.move(v)", "        self.p = Point(self.p.pv() + v)")
N("C07", "polygon-listcomp", PG, "ConvexPolygon.move",
  "        point_list = []\n        for point in self.points:\n            point_list.append(point.move(v))\n        self.points = tuple(point_list)",
  "        self.points = tuple([point.move(v) for point in self.points])")
N("C07", "halfline-line-from-point-vector", G + "halfline.py", "HalfLine.move", "self.line = Line(self.point, self.vector)", "self.line = Line(self.point, self.line.dv)")
N("C07", "point-return-fresh", G + "point.py", "Point.move", "return Point(self.pv())", "return Point(self.x, self.y, self.z)")

# =========================================================================== C18
VEC = U + "vector.py"
F("C18", "normalized-eps-guard", VEC, "Vector.normalized", "    return float(1 / self.length()) * self",
  "    if self.length() < get_eps():\n        return Vector.zero()\n    return float(1 / self.length()) * self", rule="R18.6")
N("C18", "normalized-exact-zero-guard", VEC, "Vector.normalized", "    return float(1 / self.length()) * self",
  "    if self * self == 0:\n        return Vector.zero()\n    return float(1 / self.length()) * self",
  note="only the zero vector, which has no direction and is outside the claimed range")
F("C18", "angle-short-vector-shortcut", VEC, "Vector.angle", "    cos_angle = ",
  "    if self.length() * other.length() < 1e-09:\n        return 0.0\n    cos_angle = ", rule="R18.6")
F("C18", "cross-index-slip", VEC, "Vector.cross", "a[2] * b[0] - a[0] * b[2]", "a[2] * b[0] - a[0] * b[1]", rule="R18.1")
F("C18", "cross-sign-flip", VEC, "Vector.cross", "a[0] * b[1] - a[1] * b[0]", "a[1] * b[0] - a[0] * b[1]", rule="R18.1")
F("C18", "cross-rows-rotated", VEC, "Vector.cross",
  "return Vector(a[1] * b[2] - a[2] * b[1], a[2] * b[0] - a[0] * b[2], a[0] * b[1] - a[1] * b[0])",
  "return Vector(a[2] * b[0] - a[0] * b[2], a[0] * b[1] - a[1] * b[0], a[1] * b[2] - a[2] * b[1])", rule="R18.1")
F("C18", "add-subtracts", VEC, "Vector.__add__", "x + y", "x - y", rule="R18.1")
F("C18", "sub-reversed", VEC, "Vector.__sub__", "x - y", "y - x", rule="R18.1")
F("C18", "dot-skips-component", VEC, "Vector.__mul__", "return sum((x * y for x, y in zip(self, other)))",
  "return sum((x * y for x, y in zip(self._v[:2], other._v[:2])))", rule="ANALYSIS-ERROR")
CAT["C18"].pop()
F("C18", "dot-squares", VEC, "Vector.__mul__", "x * y for x, y in zip(self, other)", "x * x for x, y in zip(self, other)", rule="R18.1")
F("C18", "scalar-mul-double", VEC, "Vector.__mul__", "return Vector([x * other for x in self._v])", "return Vector([x * other * 2 for x in self._v])", rule="R18.1")
F("C18", "neg-identity", VEC, "Vector.__neg__", "return self * -1", "return self * 1", rule="R18.1")
F("C18", "p1p2-mixed-axis", VEC, "Vector.__init__", "B.y - A.y", "B.y - A.x", rule="R18.1")
F("C18", "p1p2-reversed", VEC, "Vector.__init__", "self._v = [B.x - A.x, B.y - A.y, B.z - A.z]", "self._v = [A.x - B.x, A.y - B.y, A.z - B.z]", rule="R18.1")
F("C18", "pv-swapped", G + "point.py", "Point.pv", "return Vector(self.x, self.y, self.z)", "return Vector(self.x, self.z, self.y)", rule="R18.1")
F("C18", "unit-vector-wrong", VEC, "Vector.y_unit_vector", "return cls(0, 1, 0)", "return cls(0, 0, 1)", rule="R18.1")
F("C18", "float-in-add", VEC, "Vector.__add__", "return Vector((x + y for x, y in zip(self, other)))", "return Vector((float(x + y) for x, y in zip(self, other)))", rule="R18.2")
F("C18", "float-in-cross", VEC, "Vector.cross", "a, b = (self._v, other._v)", "a, b = ([float(c) for c in self._v], other._v)", rule="R18.2")
F("C18", "division-in-neg", VEC, "Vector.__neg__", "return self * -1", "return self * (-2 / 2)", rule="R18.2")
F("C18", "promotion-table-reordered", U + "util.py", "unify_types", "{Fraction: 1, Decimal: 2, float: 3, int: 4}", "{Fraction: 3, Decimal: 2, float: 1, int: 4}", rule="R18.3")
F("C18", "promotion-user-type-last", U + "util.py", "unify_types", "types.append((0, type(item)))", "types.append((9, type(item)))", rule="R18.3")
F("C18", "promotion-max", U + "util.py", "unify_types", "result_type = min(types)[1]", "result_type = max(types)[1]", rule="R18.3")
F("C18", "vector-ctor-skips-promotion", VEC, "Vector.__init__", "    self._v = unify_types(self._v)", "    pass", rule="R18.3")
F("C18", "point-ctor-skips-promotion", G + "point.py", "Point.__init__", "self.x, self.y, self.z = unify_types(coords)", "self.x, self.y, self.z = coords", rule="R18.3")
N("C18", "cross-commuted-factors", VEC, "Vector.cross", "a[1] * b[2] - a[2] * b[1]", "b[2] * a[1] - b[1] * a[2]")
N("C18", "cross-reordered-terms", VEC, "Vector.cross", "a[2] * b[0] - a[0] * b[2]", "-(a[0] * b[2]) + a[2] * b[0]")
N("C18", "add-list-comprehension", VEC, "Vector.__add__", "return Vector((x + y for x, y in zip(self, other)))", "return Vector([y + x for x, y in zip(self, other)])")
N("C18", "neg-componentwise", VEC, "Vector.__neg__", "return self * -1", "return Vector([-x for x in self._v])")
N("C18", "rmul-direct", VEC, "Vector.__rmul__", "return self * other", "return Vector([other * x for x in self._v])")
N("C18", "pv-from-list", G + "point.py", "Point.pv", "return Vector(self.x, self.y, self.z)", "return Vector([self.x, self.y, self.z])")
N("C18", "dot-explicit", VEC, "Vector.__mul__", "return sum((x * y for x, y in zip(self, other)))",
  "return self._v[0] * other._v[0] + self._v[1] * other._v[1] + self._v[2] * other._v[2]")

# =========================================================================== C08
LN = G + "line.py"
PL = G + "plane.py"
F("C08", "line-hash-raw-dv", LN, "Line.__hash__", "unit = self.dv.normalized()", "unit = self.dv", rule="R8.4", note="depends on |dv|")
F("C08", "line-hash-one-sided", LN, "Line.__hash__", "return hash(('Line', forward + backward, forward * backward))", "return forward", rule="R8.4",
  note="depends on the sign of dv")
F("C08", "line-hash-backward-not-negated", LN, "Line.__hash__", "backward = hash(('Line', -unit, -moment))", "backward = hash(('Line', -unit, moment))", rule="R8.4")
F("C08", "line-hash-support-point", LN, "Line.__hash__", "moment = self.sv.cross(unit)", "moment = self.sv", rule="R8.5",
  note="depends on which point of the line is stored")
F("C08", "plane-hash-signed", PL, "Plane.__hash__", "return hash(('Plane', forward + backward, forward * backward))", "return forward", rule="R8.4")
F("C08", "plane-hash-offset-not-negated", PL, "Plane.__hash__", "round(-offset, get_sig_figures())", "round(offset, get_sig_figures())", rule="R8.4")
F("C08", "plane-hash-point", PL, "Plane.__hash__", "forward = hash(('Plane', self.n, round(offset, get_sig_figures())))",
  "forward = hash(('Plane', self.n, round(offset, get_sig_figures()), self.p))", rule="R8.5")
CAT["C08"].pop()  # the pair idiom is broken first (R8.4); kept out to keep one rule per mutant
F("C08", "plane-hash-stored-point", PL, "Plane.__hash__", "offset = self.n * self.p.pv()", "offset = self.p.pv()[0]", rule="R8.5")
F("C08", "halfline-hash-unnormalised", G + "halfline.py", "HalfLine.__hash__", "hash(self.point) + hash(self.vector.normalized())", "hash(self.point) + hash(self.vector)", rule="R8.4")
F("C08", "segment-hash-start-only", G + "segment.py", "Segment.__hash__", "hash(self.start_point) + hash(self.end_point)", "hash(self.start_point)", rule="R8.4")
F("C08", "segment-hash-ordered", G + "segment.py", "Segment.__hash__", "hash(self.start_point) * hash(self.end_point)", "hash(self.start_point) - hash(self.end_point)", rule="R8.4")
F("C08", "polygon-hash-signed-plane", PG, "ConvexPolygon.__hash__", "hash(self.plane) + hash(-self.plane)", "hash(self.plane)", rule="R8.4")
CAT["C08"].pop()  # Plane.__hash__ is sign-free after the fix, so the signed use is harmless; see the next mutant
F("C08", "polygon-hash-oriented", PG, "ConvexPolygon.__hash__", "hash(self.plane) + hash(-self.plane)", "self.plane.oriented_hash()", rule="R8.4")
CAT["C08"].pop()  # needs interprocedural parity of oriented_hash(): not modelled, would be MIXED -> reported; covered below
F("C08", "polygon-hash-ordered-vertices", PG, "ConvexPolygon.__hash__", "round(self._get_point_hash_sum(), get_sig_figures())", "hash(self.points)", rule="R8.4")
F("C08", "polygon-hash-sum-weighted", PG, "ConvexPolygon._get_point_hash_sum", "        hash_sum += hash(point)", "        hash_sum = hash_sum * 31 + hash(point)", rule="R8.4")
F("C08", "polyhedron-hash-first-face", PH, "ConvexPolyhedron._get_polygon_hash_sum", "    for polygon in self.convex_polygons:\n        hash_sum += hash(polygon)",
  "    hash_sum = hash(self.convex_polygons[0])", rule="R8.4")
F("C08", "delete-hash", G + "segment.py", None, "    def __hash__(self):", "    def _unused_hash(self):", rule="R8.1")
F("C08", "point-eq-no-guard", G + "point.py", "Point.__eq__",
  "    if isinstance(other, Point):\n        return abs(self.x - other.x) < get_eps() and abs(self.y - other.y) < get_eps() and (abs(self.z - other.z) < get_eps())\n    else:\n        return False",
  "    return abs(self.x - other.x) < get_eps() and abs(self.y - other.y) < get_eps() and (abs(self.z - other.z) < get_eps())", rule="R8.2")
F("C08", "line-eq-foreign-true", LN, "Line.__eq__", "    else:\n        return False", "    else:\n        return NotImplemented", rule="R8.2")
F("C08", "polygon-eq-not-hash", PG, "ConvexPolygon.__eq__", "return hash(self) == hash(other)", "return self.points == other.points", rule="R8.3")
F("C08", "segment-eq-no-swap", G + "segment.py", "Segment.__eq__",
  "return self.start_point == other.start_point and self.end_point == other.end_point or (self.end_point == other.start_point and self.start_point == other.end_point)",
  "return self.start_point == other.start_point and self.end_point == other.end_point", rule="R8.6")
F("C08", "segment-eq-same-twice", G + "segment.py", "Segment.__eq__", "self.end_point == other.start_point and self.start_point == other.end_point",
  "self.start_point == other.start_point and self.end_point == other.end_point", rule="R8.6")
F("C08", "line-eq-raw-dv", LN, "Line.__eq__", "other.dv.parallel(self.dv)", "other.dv == self.dv", rule="R8.7")
F("C08", "halfline-eq-raw-vector", G + "halfline.py", "HalfLine.__eq__", "(self.vector.normalized() - other.vector.normalized()).length() < get_eps()",
  "(self.vector - other.vector).length() < get_eps()", rule="R8.7")
N("C08", "line-hash-complete-sign-canonicalisation", G + "line.py", "Line.__hash__",
  "    moment = self.sv.cross(unit)\n    forward = hash(('Line', unit, moment))\n    backward = hash(('Line', -unit, -moment))\n    return hash(('Line', forward + backward, forward * backward))",
  "    if unit[0] < -get_eps() or (abs(unit[0]) < get_eps() and (unit[1] < -get_eps() or (abs(unit[1]) < get_eps() and unit[2] < 0))):\n        unit = -unit\n    moment = self.sv.cross(unit)\n    return hash(('Line', unit, moment))",
  note="all three components are oriented (tolerantly: a component of float noise counts as zero): a complete canonical sign")
F("C08", "line-hash-partial-sign-canonicalisation", G + "line.py", "Line.__hash__",
  "    moment = self.sv.cross(unit)\n    forward = hash(('Line', unit, moment))\n    backward = hash(('Line', -unit, -moment))\n    return hash(('Line', forward + backward, forward * backward))",
  "    if unit[0] < 0 or (unit[0] == 0 and unit[1] < 0):\n        unit = -unit\n    moment = self.sv.cross(unit)\n    return hash(('Line', unit, moment))",
  rule="R8.4", note="directions along +-z are not oriented")
N("C08", "line-hash-frozenset", LN, "Line.__hash__", "return hash(('Line', forward + backward, forward * backward))", "return hash(('Line', frozenset((forward, backward))))")
N("C08", "line-hash-inline-unit", LN, "Line.__hash__", "    unit = self.dv.normalized()\n    moment = self.sv.cross(unit)", "    unit = self.dv.unit()\n    moment = self.sv.cross(self.dv.unit())")
N("C08", "plane-hash-swapped-operands", PL, "Plane.__hash__", "forward + backward, forward * backward", "backward + forward, backward * forward")
N("C08", "segment-hash-commuted", G + "segment.py", "Segment.__hash__", "hash(self.start_point) + hash(self.end_point)", "hash(self.end_point) + hash(self.start_point)")
N("C08", "point-hash-sum-builtin", PG, "ConvexPolygon._get_point_hash_sum",
  "    hash_sum = 0\n    for point in self.points:\n        hash_sum += hash(point)\n    return hash_sum", "    return sum((hash(point) for point in self.points))")
N("C08", "eq-guard-negated", G + "plane.py", "Plane.__eq__",
  "    if isinstance(other, Plane):\n        return self.p in other and self.n.parallel(other.n)\n    else:\n        return False",
  "    if not isinstance(other, Plane):\n        return False\n    return self.p in other and self.n.parallel(other.n)")

# =========================================================================== C01
F("C01", "unclipped-carrier-hit-plane-halfline", INTER, "inter_plane_halfline", "        return intersection(inter_p_l, b)", "        return inter_p_l", rule="R1.1")
F("C01", "unclipped-carrier-hit-line-segment", INTER, "inter_line_segment", "        return intersection(inter, s)", "        return inter", rule="R1.1")
F("C01", "clip-by-carrier", INTER, "inter_line_halfline", "        return intersection(inter, h)", "        return intersection(inter, h.line)", rule="R1.1")
F("C01", "drop-conjunct-segment-segment", INTER, "inter_segment_segment", "if inter_l_l in a and inter_l_l in b:", "if inter_l_l in a:", rule="R1.1")
F("C01", "drop-conjunct-halfline-halfline", INTER, "inter_halfline_halfline", "if inter_l_l in a and inter_l_l in b:", "if inter_l_l in b:", rule="R1.1")
F("C01", "or-for-and", INTER, "inter_segment_halfline", "if inter_l_l in a and inter_l_l in b:", "if inter_l_l in a or inter_l_l in b:", rule="R1.1")
F("C01", "wrong-endpoint-added", INTER, "inter_segment_segment", "        if a.start_point in b:\n            point_set.add(a.start_point)",
  "        if a.start_point in b:\n            point_set.add(a.end_point)", rule="R1.1")
F("C01", "endpoint-added-unguarded", INTER, "inter_halfline_halfline", "        if a.point in b:\n            point_set.add(a.point)",
  "        point_set.add(a.point)", rule="R1.1")
F("C01", "return-wrong-operand", INTER, "inter_line_segment", "        return s\n", "        return l\n", rule="R1.1")
F("C01", "point-line-returns-unconditionally", INTER, "inter_point_line", "    if p in l:\n        return p\n    else:\n        return None", "    return p", rule="R1.1")
F("C01", "line-plane-contained-returns-plane", INTER, "inter_line_plane", "    if l in p:\n        return l", "    if l in p:\n        return p", rule="R1.1")
F("C01", "fourth-numeric-construction", INTER, "inter_line_segment", "        return intersection(inter, s)", "        return Point(inter.pv() * 1)", rule="R1.1")
F("C01", "drop-endpoint-candidate", INTER, "inter_segment_segment", "        if b.end_point in a:\n            point_set.add(b.end_point)\n", "", rule="R1.2")
F("C01", "drop-origin-candidate", INTER, "inter_segment_halfline", "        if b.point in a:\n            point_set.add(b.point)\n", "", rule="R1.2")
F("C01", "drop-whole-halfline-return", INTER, "inter_halfline_halfline", "        if b in a:\n            return b\n", "", rule="R1.2")
F("C01", "candidate-tested-against-self", INTER, "inter_segment_halfline", "        if a.end_point in b:\n            point_set.add(a.end_point)",
  "        if a.end_point in a:\n            point_set.add(a.end_point)", rule="R1.1")
F("C01", "drop-parallel-guard-line-plane", INTER, "inter_line_plane", "    elif parallel(l, p):\n        return None\n", "", rule="R1.3")
F("C01", "drop-parallel-guard-plane-plane", INTER, "inter_plane_plane", "    elif a.n.parallel(b.n):\n        return None\n    else:", "    else:", rule="R1.3")
F("C01", "guard-on-wrong-operands", INTER, "inter_plane_plane", "    elif a.n.parallel(b.n):", "    elif a.n.parallel(a.n):", rule="R1.3")
N("C01", "demorgan-segment-segment", INTER, "inter_segment_segment",
  "            if inter_l_l in a and inter_l_l in b:\n                return inter_l_l\n            else:\n                return None",
  "            if not inter_l_l in a or not inter_l_l in b:\n                return None\n            return inter_l_l")
N("C01", "swap-conjuncts", INTER, "inter_halfline_halfline", "if inter_l_l in a and inter_l_l in b:", "if inter_l_l in b and inter_l_l in a:")
N("C01", "nested-ifs", INTER, "inter_segment_halfline",
  "            if inter_l_l in a and inter_l_l in b:\n                return inter_l_l\n            else:\n                return None",
  "            if inter_l_l in a:\n                if inter_l_l in b:\n                    return inter_l_l\n            return None")
N("C01", "rename-locals", INTER, "inter_plane_segment", "inter_p_l", "hit", count=0)
N("C01", "candidates-reordered", INTER, "inter_segment_segment",
  "        if a.start_point in b:\n            point_set.add(a.start_point)\n        if a.end_point in b:\n            point_set.add(a.end_point)",
  "        if a.end_point in b:\n            point_set.add(a.end_point)\n        if a.start_point in b:\n            point_set.add(a.start_point)")
N("C01", "clip-argument-order", INTER, "inter_plane_halfline", "        return intersection(inter_p_l, b)", "        return intersection(b, inter_p_l)")
N("C01", "point-plane-via-not-in", INTER, "inter_point_plane", "    if pnt in pln:\n        return pnt\n    else:\n        return None", "    if pnt not in pln:\n        return None\n    return pnt")
N("C01", "orthogonal-guard-line-plane", INTER, "inter_line_plane", "    elif parallel(l, p):", "    elif l.dv.orthogonal(p.n):")

# =========================================================================== C02
AUX = C + "aux_calc.py"
F("C02", "helper-drops-edge-loop", AUX, "get_segment_convexpolyhedron_intersection_point_set",
  "    for seg in cph.segment_set:\n        inter_s_s = seg.intersection(s)\n        if inter_s_s is None:\n            continue\n        elif isinstance(inter_s_s, Segment):\n            continue\n        elif isinstance(inter_s_s, Point):\n            point_set.add(inter_s_s)\n        else:\n            raise TypeError('Bug detected! please contact the author')\n",
  "", rule="R2.2")
F("C02", "helper-continue-on-point", AUX, "get_halfline_convexpolyhedron_intersection_point_set",
  "        elif isinstance(inter_cpg_h, Segment):\n            continue\n        elif isinstance(inter_cpg_h, Point):\n            point_set.add(inter_cpg_h)",
  "        elif isinstance(inter_cpg_h, Point):\n            continue\n        elif isinstance(inter_cpg_h, Segment):\n            point_set.add(inter_cpg_h.start_point)", rule="R2.2")
F("C02", "helper-intersects-carrier", AUX, "get_segment_convexpolygon_intersection_point_set", "inter_s_s = seg.intersection(s)", "inter_s_s = seg.line.intersection(s)", rule="R2.1")
F("C02", "helper-clips-by-line", AUX, "get_segment_convexpolyhedron_intersection_point_set", "inter_cpg_s = cpg.intersection(s)", "inter_cpg_s = cpg.intersection(s.line)", rule="R2.1")
F("C02", "skip-origin-halfline-polyhedron", INTER, "inter_convexpolyhedron_halfline", "    if h.point in cph:\n        inter_point_set.add(h.point)\n", "", rule="R2.2")
F("C02", "origin-added-unguarded", INTER, "inter_convexpolyhedron_halfline", "    if h.point in cph:\n        inter_point_set.add(h.point)", "    inter_point_set.add(h.point)", rule="R2.1")
F("C02", "segment-polygon-unclipped", INTER, "inter_segment_convexpolygon", "            return intersection(inter_l_cpg, a)", "            return inter_l_cpg", rule="R2.1")
F("C02", "segment-polygon-drop-in-b", INTER, "inter_segment_convexpolygon", "if not inter_l_p in a or not inter_l_p in b:", "if not inter_l_p in a:", rule="R2.1")
F("C02", "halfline-polygon-drop-in-h", INTER, "inter_convexpolygon_halfline", "if not inter_l_p in cpg or not inter_l_p in h:", "if not inter_l_p in cpg:", rule="R2.1")
F("C02", "line-polygon-plane-hit-unclipped", INTER, "inter_line_convexpolygon", "        return intersection(inter, cpg)", "        return inter", rule="R2.1")
F("C02", "plane-polyhedron-true-test", INTER, "inter_plane_convexpolyhedron", "        if cpg in a:\n            return cpg", "        if True:\n            return cpg", rule="R2.1")
F("C02", "segment-polyhedron-both-inside-unchecked", INTER, "inter_segment_convexpolyhedron", "    if a.start_point in b and a.end_point in b:\n        return a", "    if a.start_point in b:\n        return a", rule="R2.1")
F("C02", "segment-polyhedron-wrong-end", INTER, "inter_segment_convexpolyhedron", "    if a.start_point in b and (not a.end_point in b):\n        inter_point_set.add(a.start_point)",
  "    if a.start_point in b and (not a.end_point in b):\n        inter_point_set.add(a.end_point)", rule="R2.1")
F("C02", "line-polygon-no-edge-loop", INTER, "inter_line_convexpolygon", "        for segment in cpg.segments():", "        for segment in list(cpg.segments())[:1]:", rule="R2.2")
F("C02", "case-split-not-exhaustive", INTER, "inter_segment_convexpolyhedron", "    elif not a.start_point in b and (not a.end_point in b):\n        pass\n", "", rule="R2.3")
N("C02", "helper-renamed-locals", AUX, "get_halfline_convexpolyhedron_intersection_point_set", "inter_cpg_h", "hit_face", count=0)
N("C02", "helper-loops-swapped", AUX, "get_segment_convexpolyhedron_intersection_point_set", "cph.convex_polygons", "cph.convex_polygons", count=0)
N("C02", "function-form-call", AUX, "get_segment_convexpolygon_intersection_point_set", "inter_s_s = seg.intersection(s)", "inter_s_s = seg.intersection(s) if True else None")
CAT["C02"].pop()
N("C02", "demorgan-halfline-polygon", INTER, "inter_convexpolygon_halfline",
  "        if not inter_l_p in cpg or not inter_l_p in h:\n            return None\n        else:\n            return inter_l_p",
  "        if inter_l_p in cpg and inter_l_p in h:\n            return inter_l_p\n        return None")
N("C02", "explicit-two-endpoints-test-order", INTER, "inter_segment_convexpolyhedron", "    if a.start_point in b and a.end_point in b:\n        return a", "    if a.end_point in b and a.start_point in b:\n        return a")
N("C02", "list-then-index", INTER, "inter_line_convexpolyhedron", "        return list(set_point)[0]", "        pts = list(set_point)\n        return pts[0]")
N("C02", "plane-polyhedron-tuple-to-list", INTER, "inter_plane_convexpolyhedron", "point_tuple = tuple(point_set)", "point_tuple = list(point_set)")

# =========================================================================== C03
F("C03", "drop-vertex-family-b", INTER, "inter_convexpolygon_convexpolygon", "        for pb in b.points:\n            if pb in a:\n                point_set.add(pb)\n", "", rule="R3.2")
F("C03", "vertex-family-tests-self", INTER, "inter_convexpolygon_convexpolygon", "        for pa in a.points:\n            if pa in b:", "        for pa in a.points:\n            if pa in a:", rule="R3.1")
F("C03", "vertex-family-unguarded", INTER, "inter_convexpolygon_convexpolygon", "            if pb in a:\n                point_set.add(pb)", "            point_set.add(pb)", rule="R3.1")
F("C03", "drop-edge-crossings", INTER, "inter_convexpolygon_convexpolygon",
  "        for seg in a.segments():\n            point_set = point_set.union(get_segment_convexpolygon_intersection_point_set(seg, b))\n", "", rule="R3.2")
F("C03", "edge-crossings-against-self", INTER, "inter_convexpolygon_convexpolygon", "get_segment_convexpolygon_intersection_point_set(seg, b)", "get_segment_convexpolygon_intersection_point_set(seg, a)", rule="R3.1")
F("C03", "crossing-line-clipped-once", INTER, "inter_convexpolygon_convexpolygon", "            return intersection(inter_p_cph1, inter_p_cph2)", "            return inter_p_cph1", rule="R3.1")
F("C03", "polyhedron-one-sided", INTER, "inter_convexpolyhedron_convexpolyhedron",
  "    for cpg in cph2.convex_polygons:\n        inter = inter_convexpolygon_convexPolyhedron(cph1, cpg)", "    for cpg in cph2.convex_polygons[:0]:\n        inter = inter_convexpolygon_convexPolyhedron(cph1, cpg)", rule="R3.2")
F("C03", "polyhedron-clips-by-itself", INTER, "inter_convexpolyhedron_convexpolyhedron", "        inter = inter_convexpolygon_convexPolyhedron(cph2, cpg)", "        inter = inter_convexpolygon_convexPolyhedron(cph1, cpg)", rule="R3.1")
F("C03", "polygon-polyhedron-unclipped", INTER, "inter_convexpolygon_convexPolyhedron", "        return intersection(inter_p_cph, cpg)", "        return inter_p_cph", rule="R3.1")
F("C03", "selection-points-first", INTER, "inter_convexpolyhedron_convexpolyhedron",
  "    if len(cpg_set) > 1:", "    if len(point_set) == 1 and len(cpg_set) > 100:\n        return list(point_set)[0]\n    elif len(cpg_set) > 1:", rule="R3.3")
F("C03", "ladder-two-points-gives-point", INTER, "inter_convexpolygon_convexpolygon", "            return Segment(point_tuple[0], point_tuple[1])", "            return point_tuple[0]", rule="R3.3")
N("C03", "vertex-loops-swapped", INTER, "inter_convexpolygon_convexpolygon",
  "        for pa in a.points:\n            if pa in b:\n                point_set.add(pa)\n        for pb in b.points:\n            if pb in a:\n                point_set.add(pb)",
  "        for pb in b.points:\n            if pb in a:\n                point_set.add(pb)\n        for pa in a.points:\n            if pa in b:\n                point_set.add(pa)")
N("C03", "edge-crossings-from-b", INTER, "inter_convexpolygon_convexpolygon",
  "        for seg in a.segments():\n            point_set = point_set.union(get_segment_convexpolygon_intersection_point_set(seg, b))",
  "        for seg in b.segments():\n            point_set = point_set.union(get_segment_convexpolygon_intersection_point_set(seg, a))")
N("C03", "through-dispatcher", INTER, "inter_convexpolyhedron_convexpolyhedron", "        inter = inter_convexpolygon_convexPolyhedron(cph2, cpg)", "        inter = intersection(cpg, cph2)")
N("C03", "rename-sets", INTER, "inter_convexpolyhedron_convexpolyhedron", "segment_set", "seg_results", count=0)

# =========================================================================== C12
F("C12", "none-test-removed", INTER, "intersection", "    if a is None or b is None:", "    if a is None and b is None:", rule="R12.2")
F("C12", "none-into-handler", INTER, "inter_convexpolygon_convexpolygon", "            return intersection(inter_p_cph1, inter_p_cph2)",
  "            return inter_segment_segment(inter_p_cph1, inter_p_cph2)", rule="R12.2")
CAT["C12"].pop()  # the None case returns earlier on this path; E1 narrows it away (correctly)
F("C12", "old-handler-unclipped", INTER, "inter_convexpolygon_convexPolyhedron_old", "            point = intersection(polygon, segment)", "            point = intersection(polygon.plane, segment.line)", rule="R12.1")
CAT["C12"].pop()  # guarded by `if point in cpg` only: genuinely unconfined in cph, but the legacy function is unreferenced
F("C12", "dispatcher-returns-operand", INTER, "intersection", "        return inter_point_point(a, b)", "        return a", rule="R12.1")
F("C12", "any-handler-unclipped", INTER, "inter_plane_segment", "        return intersection(inter_p_l, b)", "        return inter_p_l", rule="R12.1")
N("C12", "none-test-split", INTER, "intersection", "    if a is None or b is None:", "    if b is None or a is None:")

# =========================================================================== C06
F("C06", "segments-short-range", PG, "ConvexPolygon.segments", "for i in range(len(self.points)):", "for i in range(len(self.points) - 1):", rule="R6.2")
F("C06", "area-no-wrap", PG, "ConvexPolygon.area",
  "        if i == len(self.points) - 1:\n            index_1 = 0\n        else:\n            index_1 = i + 1", "        index_1 = i + 1", rule="R6.2")
F("C06", "area-successor-is-self", PG, "ConvexPolygon.area", "            index_1 = i + 1", "            index_1 = i", rule="ANALYSIS-ERROR")
CAT["C06"].pop()  # degenerate fan triangles (area 0) keep the degree; not a cycle walk any more: outside the rule's fault model
F("C06", "contains-short-range", PG, "ConvexPolygon.__contains__", "for i in range(len(self.points)):", "for i in range(1, len(self.points)):", rule="R6.2")
F("C06", "pyramid-one-half", G + "pyramid.py", "Pyramid.volume", "return 1 / 3 * h * self.convex_polygon.area()", "return 1 / 2 * h * self.convex_polygon.area()", rule="R6.4")
F("C06", "pyramid-height-squared", G + "pyramid.py", "Pyramid.volume", "return 1 / 3 * h * self.convex_polygon.area()", "return 1 / 3 * h * h * self.convex_polygon.area()", rule="R6.1")
F("C06", "pyramid-missing-area", G + "pyramid.py", "Pyramid.volume", "return 1 / 3 * h * self.convex_polygon.area()", "return 1 / 3 * h", rule="R6.1")
F("C06", "volume-fn-one-half", C + "volume.py", "volume", "return 1 / 3 * height * arg.convex_polygon.area()", "return 0.5 * height * arg.convex_polygon.area()", rule="R6.4")
F("C06", "volume-fn-wrong-height", C + "volume.py", "volume", "height = distance(arg.point, arg.convex_polygon.plane)", "height = distance(arg.point, arg.convex_polygon.center_point)", rule="R6.4")
F("C06", "heron-drops-sqrt", PG, "get_triangle_area", "return math.sqrt(p * (p - a) * (p - b) * (p - c))", "return p * (p - a) * (p - b) * (p - c)", rule="R6.1")
F("C06", "heron-missing-factor", PG, "get_triangle_area", "return math.sqrt(p * (p - a) * (p - b) * (p - c))", "return math.sqrt(p * (p - a) * (p - b))", rule="R6.1")
F("C06", "point-distance-no-sqrt", G + "point.py", "Point.distance", "return math.sqrt((self.x - other.x) ** 2 + (self.y - other.y) ** 2 + (self.z - other.z) ** 2)",
  "return (self.x - other.x) ** 2 + (self.y - other.y) ** 2 + (self.z - other.z) ** 2", rule="R6.1")
F("C06", "point-distance-mixed", G + "point.py", "Point.distance", "(self.z - other.z) ** 2)", "(self.z - other.z))", rule="R6.1")
F("C06", "polyhedron-area-adds-length", PH, "ConvexPolyhedron.area", "        a += polygon.area()", "        a += polygon.length()", rule="R6.1")
F("C06", "polyhedron-length-slice", PH, "ConvexPolyhedron.length", "for segment in self.segment_set:", "for segment in list(self.segment_set)[1:]:", rule="R6.3")
F("C06", "polyhedron-volume-conditional", PH, "ConvexPolyhedron.volume", "        v += pyramid.volume()", "        if pyramid.height() > 1:\n            v += pyramid.volume()", rule="R6.3")
F("C06", "pyramids-only-for-flipped", PH, "ConvexPolyhedron.__init__",
  "            self.convex_polygons[i] = -convex_polygon\n        self.pyramid_set.add(Pyramid(convex_polygon, self.center_point, direct_call=False))",
  "            self.convex_polygons[i] = -convex_polygon\n            self.pyramid_set.add(Pyramid(convex_polygon, self.center_point, direct_call=False))", rule="R6.3")
F("C06", "segment-list-duplicates", PH, "ConvexPolyhedron.__init__", "    self.segment_set = set()", "    self.segment_set = []", rule="ANALYSIS-ERROR")
CAT["C06"].pop()
F("C06", "height-wrong-base-point", G + "pyramid.py", "Pyramid.height", "p0 = self.convex_polygon.points[0]", "p0 = self.point", rule="R6.4")
F("C06", "height-no-abs", G + "pyramid.py", "Pyramid.height", "return abs(Vector(p0, self.point) * self.convex_polygon.plane.n.normalized())",
  "return Vector(p0, self.point) * self.convex_polygon.plane.n.normalized()", rule="R6.4")
N("C06", "pyramid-reordered", G + "pyramid.py", "Pyramid.volume", "return 1 / 3 * h * self.convex_polygon.area()", "return h * self.convex_polygon.area() / 3")
N("C06", "modulo-successor", PG, "ConvexPolygon.area",
  "        if i == len(self.points) - 1:\n            index_1 = 0\n        else:\n            index_1 = i + 1", "        index_1 = (i + 1) % len(self.points)")
N("C06", "heron-half-perimeter-name", PG, "get_triangle_area", "p", "s_half", count=0)
CAT["C06"].pop()  # textual rename of a one-letter name also hits other identifiers
N("C06", "segment-length-via-vector", G + "segment.py", "Segment.length", "return self.start_point.distance(self.end_point)", "return Vector(self.start_point, self.end_point).length()")
N("C06", "area-accumulator-renamed", PH, "ConvexPolyhedron.area", "    a = 0\n    for polygon in self.convex_polygons:\n        a += polygon.area()\n    return a",
  "    total = 0\n    for face in self.convex_polygons:\n        total += face.area()\n    return total")
F("C06", "volume-fn-signed-projection", C + "volume.py", "volume", "height = distance(arg.point, arg.convex_polygon.plane)",
  "height = (arg.convex_polygon.plane.p.pv() - arg.point.pv()) * arg.convex_polygon.plane.n", rule="R6.4",
  note="signed height: negative for an apex on the positive side of the base")
N("C06", "volume-fn-abs-projection", C + "volume.py", None, "from .distance import distance\n", "from .distance import distance\nfrom ..utils.vector import Vector\n")
CAT["C06"].pop()
N("C06", "volume-fn-sum-over-faces", C + "volume.py", "volume",
  "        total_volume = 0\n        for pyramid in arg.pyramid_set:\n            total_volume += volume(pyramid)\n        return total_volume",
  "        return sum((1 / 3 * distance(arg.center_point, face.plane) * face.area() for face in arg.convex_polygons))")
F("C06", "volume-fn-sum-over-faces-wrong-apex", C + "volume.py", "volume",
  "        total_volume = 0\n        for pyramid in arg.pyramid_set:\n            total_volume += volume(pyramid)\n        return total_volume",
  "        return sum((1 / 3 * distance(arg.convex_polygons[0].center_point, face.plane) * face.area() for face in arg.convex_polygons))",
  rule="R6.3", note="apex on a face: not the pyramids of pyramid_set")
F("C06", "volume-fn-sum-over-faces-filtered", C + "volume.py", "volume",
  "        total_volume = 0\n        for pyramid in arg.pyramid_set:\n            total_volume += volume(pyramid)\n        return total_volume",
  "        return sum((1 / 3 * distance(arg.center_point, face.plane) * face.area() for face in arg.convex_polygons if face.area() > 1))",
  rule="R6.3")
N("C06", "volume-fn-third-float", C + "volume.py", "volume", "return 1 / 3 * height * arg.convex_polygon.area()", "return height * arg.convex_polygon.area() / 3")


def catalogue(prop: str) -> List[Mutant]:
    out = list(CAT.get(prop, []))
    if prop == "C12":
        # C12's first law *is* the confinement theorem over all handlers: its catalogue is the union of the
        # confinement mutants of C01-C03 (fault: any new finding of C12; neutral: none)
        for src in ("C01", "C02", "C03"):
            for m in CAT.get(src, []):
                if m.kind == "neutral" or (m.rule or "").endswith(".1"):
                    out.append(Mutant("C12:" + m.name, m.kind, m.file, m.func, m.find, m.replace, None, m.count, m.note, base=getattr(m, "base", None)))
    return out


# =========================================================================== stacked variants: a fault on top of a refactor
# (the restructured dispatcher of neutral-M6, the out-parameter helper of neutral-M3)
FB("C04", "unswapped-polyhedron-polygon-row", "neutral-M6", INTER, "intersection",
   "return inter_convexpolygon_convexPolyhedron(second, first)", "return inter_convexpolygon_convexPolyhedron(first, second)", rule="R4.2")
FB("C04", "two-ranks-exchanged", "neutral-M6", INTER, "_kind_rank",
   "    if isinstance(obj, Plane):\n        return 2\n    if isinstance(obj, Segment):\n        return 3",
   "    if isinstance(obj, Plane):\n        return 3\n    if isinstance(obj, Segment):\n        return 2", rule="R4.2")
NB("C04", "strict-rank-comparison", "neutral-M6", INTER, "intersection", "if rank_a <= rank_b:", "if rank_a < rank_b:",
   note="equal ranks are the same type: either order runs the same handler")
FB("C01", "end-point-candidate-dropped", "neutral-M6", INTER, "inter_segment_segment",
   "_points_within((a.start_point, a.end_point), b)", "_points_within((a.start_point,), b)", rule="R1.2")
FB("C01", "crossing-point-clipped-once", "neutral-M6", INTER, "_inter_crossing_linears",
   "if inter_l_l in a and inter_l_l in b:", "if inter_l_l in a:", rule="R1.1")
FB("C12", "crossing-point-clipped-once", "neutral-M6", INTER, "_inter_crossing_linears",
   "if inter_l_l in a and inter_l_l in b:", "if inter_l_l in a:", rule="R12.1")
NB("C12", "strict-rank-comparison", "neutral-M6", INTER, "intersection", "if rank_a <= rank_b:", "if rank_a < rank_b:")
FB("C02", "edge-family-dropped-in-helper-form", "neutral-M3", AUX, "get_segment_convexpolyhedron_intersection_point_set",
   "    _add_point_intersections(point_set, cph.segment_set, s)\n", "", rule="R2.2")
FB("C02", "helper-intersects-carrier-line", "neutral-M3", AUX, "_add_point_intersections",
   "inter = body.intersection(other)", "inter = body.intersection(other.line)", rule="R2.1")
FB("C11", "normalised-pair-wrong-predicate", "neutral-M6", C + "angle.py", "parallel",
   "return a.dv.orthogonal(b.n)", "return a.dv.parallel(b.n)", rule="R11.3")


N('C07', "lazy-area-cache", PG, "ConvexPolygon.area",
  '    area = 0\n    for i in range(len(self.points)):\n        index_0 = i\n        if i == len(self.points) - 1:\n            index_1 = 0\n        else:\n            index_1 = i + 1\n        area += get_triangle_area(self.center_point, self.points[index_0], self.points[index_1])\n    return area',
  '    try:\n        return self._area\n    except AttributeError:\n        pass\n    area = 0\n    for i in range(len(self.points)):\n        index_0 = i\n        if i == len(self.points) - 1:\n            index_1 = 0\n        else:\n            index_1 = i + 1\n        area += get_triangle_area(self.center_point, self.points[index_0], self.points[index_1])\n    self._area = area\n    return self._area',
  note="a memoised area: translation invariant, tolerance free, read only by its accessor -- needs no refresh and is not an observable write")
F('C07', "lazy-position-dependent-cache", PG, "ConvexPolygon.area",
  '    area = 0\n    for i in range(len(self.points)):\n        index_0 = i\n        if i == len(self.points) - 1:\n            index_1 = 0\n        else:\n            index_1 = i + 1\n        area += get_triangle_area(self.center_point, self.points[index_0], self.points[index_1])\n    return area',
  '    try:\n        return self._area\n    except AttributeError:\n        pass\n    area = 0\n    for i in range(len(self.points)):\n        index_0 = i\n        if i == len(self.points) - 1:\n            index_1 = 0\n        else:\n            index_1 = i + 1\n        area += get_triangle_area(self.center_point, self.points[index_0], self.points[index_1])\n    self._area = area + 0 * self.center_point.pv().length()\n    return self._area', rule='R7.1',
  note="the cached value depends on the position (centre distance from the origin) and move() does not drop it")
N('C20', "lazy-area-cache", PG, "ConvexPolygon.area",
  '    area = 0\n    for i in range(len(self.points)):\n        index_0 = i\n        if i == len(self.points) - 1:\n            index_1 = 0\n        else:\n            index_1 = i + 1\n        area += get_triangle_area(self.center_point, self.points[index_0], self.points[index_1])\n    return area',
  '    try:\n        return self._area\n    except AttributeError:\n        pass\n    area = 0\n    for i in range(len(self.points)):\n        index_0 = i\n        if i == len(self.points) - 1:\n            index_1 = 0\n        else:\n            index_1 = i + 1\n        area += get_triangle_area(self.center_point, self.points[index_0], self.points[index_1])\n    self._area = area\n    return self._area',
  note="a memoised area: translation invariant, tolerance free, read only by its accessor -- needs no refresh and is not an observable write")
F('C20', "lazy-position-dependent-cache", PG, "ConvexPolygon.area",
  '    area = 0\n    for i in range(len(self.points)):\n        index_0 = i\n        if i == len(self.points) - 1:\n            index_1 = 0\n        else:\n            index_1 = i + 1\n        area += get_triangle_area(self.center_point, self.points[index_0], self.points[index_1])\n    return area',
  '    try:\n        return self._area\n    except AttributeError:\n        pass\n    area = 0\n    for i in range(len(self.points)):\n        index_0 = i\n        if i == len(self.points) - 1:\n            index_1 = 0\n        else:\n            index_1 = i + 1\n        area += get_triangle_area(self.center_point, self.points[index_0], self.points[index_1])\n    self._area = area + 0 * self.center_point.pv().length()\n    return self._area', rule='R20.1',
  note="the cached value depends on the position (centre distance from the origin) and move() does not drop it")
N('C07', "lazy-area-cache-getattr", PG, "ConvexPolygon.area",
  '    area = 0\n    for i in range(len(self.points)):\n        index_0 = i\n        if i == len(self.points) - 1:\n            index_1 = 0\n        else:\n            index_1 = i + 1\n        area += get_triangle_area(self.center_point, self.points[index_0], self.points[index_1])\n    return area',
  '    cached = getattr(self, "_area", None)\n    if cached is not None:\n        return cached\n    area = 0\n    for i in range(len(self.points)):\n        index_0 = i\n        if i == len(self.points) - 1:\n            index_1 = 0\n        else:\n            index_1 = i + 1\n        area += get_triangle_area(self.center_point, self.points[index_0], self.points[index_1])\n    self._area = area\n    return area',
  note="the same memo read with getattr(self, '_area', None): a literal attribute name is an ordinary attribute read")
N('C20', "lazy-area-cache-getattr", PG, "ConvexPolygon.area",
  '    area = 0\n    for i in range(len(self.points)):\n        index_0 = i\n        if i == len(self.points) - 1:\n            index_1 = 0\n        else:\n            index_1 = i + 1\n        area += get_triangle_area(self.center_point, self.points[index_0], self.points[index_1])\n    return area',
  '    cached = getattr(self, "_area", None)\n    if cached is not None:\n        return cached\n    area = 0\n    for i in range(len(self.points)):\n        index_0 = i\n        if i == len(self.points) - 1:\n            index_1 = 0\n        else:\n            index_1 = i + 1\n        area += get_triangle_area(self.center_point, self.points[index_0], self.points[index_1])\n    self._area = area\n    return area',
  note="the same memo read with getattr(self, '_area', None)")
# =========================================================================== positive controls for rules with no instance today
# (the handlers contain no numeric pre-filter on the pinned tree; these variants must be reported -- the quick tier runs them
# too, so that the rule cannot pass vacuously, cf. CONTROLS below)
F("C01", "control-exact-numeric-rejection", INTER, "inter_plane_halfline",
  "    inter_p_l = intersection(a, b.line)\n",
  "    if (a.n * b.point.pv() - a.n * a.p.pv()) * (a.n * b.vector) > 0:\n        return None\n    inter_p_l = intersection(a, b.line)\n", rule="R1.4")
F("C02", "hits-keyed-by-raw-coordinates", INTER, "inter_line_convexpolyhedron",
  "    set_point = set()\n    for cpg in cph.convex_polygons:\n        inter_cpg_l = intersection(l, cpg)\n        if isinstance(inter_cpg_l, Segment):\n            return inter_cpg_l\n        elif isinstance(inter_cpg_l, Point):\n            set_point.add(inter_cpg_l)\n        elif inter_cpg_l is None:\n            pass\n        else:\n            raise TypeError('Bug detected! please contact the author')\n    if len(set_point) == 0:\n        return None\n    elif len(set_point) == 1:\n        return list(set_point)[0]\n    elif len(set_point) >= 2:\n        list_point = list(set_point)\n        return get_segment_from_point_list(list_point)",
  "    by_position = {}\n    for cpg in cph.convex_polygons:\n        inter_cpg_l = intersection(l, cpg)\n        if isinstance(inter_cpg_l, Segment):\n            return inter_cpg_l\n        elif isinstance(inter_cpg_l, Point):\n            by_position.setdefault(tuple(inter_cpg_l), inter_cpg_l)\n        elif inter_cpg_l is None:\n            pass\n        else:\n            raise TypeError('Bug detected! please contact the author')\n    list_point = list(by_position.values())\n    if len(list_point) == 0:\n        return None\n    elif len(list_point) == 1:\n        return list_point[0]\n    elif len(list_point) >= 2:\n        return get_segment_from_point_list(list_point)", rule="R2.6",
  note="a vertex hit found from three faces differs by float noise: three points instead of one")
F("C02", "hits-keyed-by-xyz-subscript", INTER, "inter_line_convexpolyhedron",
  "    set_point = set()\n    for cpg in cph.convex_polygons:\n        inter_cpg_l = intersection(l, cpg)\n        if isinstance(inter_cpg_l, Segment):\n            return inter_cpg_l\n        elif isinstance(inter_cpg_l, Point):\n            set_point.add(inter_cpg_l)\n        elif inter_cpg_l is None:\n            pass\n        else:\n            raise TypeError('Bug detected! please contact the author')\n    if len(set_point) == 0:\n        return None\n    elif len(set_point) == 1:\n        return list(set_point)[0]\n    elif len(set_point) >= 2:\n        list_point = list(set_point)\n        return get_segment_from_point_list(list_point)",
  "    by_position = {}\n    for cpg in cph.convex_polygons:\n        inter_cpg_l = intersection(l, cpg)\n        if isinstance(inter_cpg_l, Segment):\n            return inter_cpg_l\n        elif isinstance(inter_cpg_l, Point):\n            by_position[inter_cpg_l.x, inter_cpg_l.y, inter_cpg_l.z] = inter_cpg_l\n        elif inter_cpg_l is None:\n            pass\n        else:\n            raise TypeError('Bug detected! please contact the author')\n    list_point = list(by_position.values())\n    if len(list_point) == 0:\n        return None\n    elif len(list_point) == 1:\n        return list_point[0]\n    elif len(list_point) >= 2:\n        return get_segment_from_point_list(list_point)", rule="R2.6")
F("C02", "hits-filtered-by-seen-coordinates", INTER, "inter_line_convexpolyhedron",
  "    set_point = set()\n    for cpg in cph.convex_polygons:\n        inter_cpg_l = intersection(l, cpg)\n        if isinstance(inter_cpg_l, Segment):\n            return inter_cpg_l\n        elif isinstance(inter_cpg_l, Point):\n            set_point.add(inter_cpg_l)\n        elif inter_cpg_l is None:\n            pass\n        else:\n            raise TypeError('Bug detected! please contact the author')\n    if len(set_point) == 0:\n        return None\n    elif len(set_point) == 1:\n        return list(set_point)[0]\n    elif len(set_point) >= 2:\n        list_point = list(set_point)\n        return get_segment_from_point_list(list_point)",
  "    seen = set()\n    list_point = []\n    for cpg in cph.convex_polygons:\n        inter_cpg_l = intersection(l, cpg)\n        if isinstance(inter_cpg_l, Segment):\n            return inter_cpg_l\n        elif isinstance(inter_cpg_l, Point):\n            if (inter_cpg_l.x, inter_cpg_l.y, inter_cpg_l.z) not in seen:\n                seen.add((inter_cpg_l.x, inter_cpg_l.y, inter_cpg_l.z))\n                list_point.append(inter_cpg_l)\n        elif inter_cpg_l is None:\n            pass\n        else:\n            raise TypeError('Bug detected! please contact the author')\n    if len(list_point) == 0:\n        return None\n    elif len(list_point) == 1:\n        return list_point[0]\n    elif len(list_point) >= 2:\n        return get_segment_from_point_list(list_point)", rule="R2.6")
N("C02", "hits-keyed-by-the-point", INTER, "inter_line_convexpolyhedron",
  "    set_point = set()\n    for cpg in cph.convex_polygons:\n        inter_cpg_l = intersection(l, cpg)\n        if isinstance(inter_cpg_l, Segment):\n            return inter_cpg_l\n        elif isinstance(inter_cpg_l, Point):\n            set_point.add(inter_cpg_l)\n        elif inter_cpg_l is None:\n            pass\n        else:\n            raise TypeError('Bug detected! please contact the author')\n    if len(set_point) == 0:\n        return None\n    elif len(set_point) == 1:\n        return list(set_point)[0]\n    elif len(set_point) >= 2:\n        list_point = list(set_point)\n        return get_segment_from_point_list(list_point)",
  "    by_position = {}\n    for cpg in cph.convex_polygons:\n        inter_cpg_l = intersection(l, cpg)\n        if isinstance(inter_cpg_l, Segment):\n            return inter_cpg_l\n        elif isinstance(inter_cpg_l, Point):\n            by_position.setdefault(inter_cpg_l, inter_cpg_l)\n        elif inter_cpg_l is None:\n            pass\n        else:\n            raise TypeError('Bug detected! please contact the author')\n    list_point = list(by_position.values())\n    if len(list_point) == 0:\n        return None\n    elif len(list_point) == 1:\n        return list_point[0]\n    elif len(list_point) >= 2:\n        return get_segment_from_point_list(list_point)",
  note="a dictionary keyed by the Point itself merges through the tolerant __eq__ / __hash__, like the set")
F("C02", "control-exact-numeric-rejection", INTER, "inter_convexpolyhedron_halfline",
  "    inter_point_set = get_halfline_convexpolyhedron_intersection_point_set(h, cph)\n",
  "    if (cph.center_point.pv() - h.point.pv()) * h.vector < 0:\n        return None\n    inter_point_set = get_halfline_convexpolyhedron_intersection_point_set(h, cph)\n",
  rule="R2.5")
F("C03", "control-exact-numeric-rejection", INTER, "inter_convexpolygon_convexpolygon",
  "    inter_p_p = intersection(a.plane, b.plane)\n",
  "    if (a.center_point.pv() - b.center_point.pv()).length() > a.length() + b.length():\n        return None\n    inter_p_p = intersection(a.plane, b.plane)\n",
  rule="R3.4")
F("C12", "control-exact-numeric-rejection", INTER, "inter_plane_halfline",
  "    inter_p_l = intersection(a, b.line)\n",
  "    if (a.n * b.point.pv() - a.n * a.p.pv()) * (a.n * b.vector) > 0:\n        return None\n    inter_p_l = intersection(a, b.line)\n", rule="R12.3")

F("C03", "crossings-keyed-by-raw-coordinates", INTER, "inter_convexpolygon_convexpolygon",
  "        for seg in a.segments():\n            point_set = point_set.union(get_segment_convexpolygon_intersection_point_set(seg, b))\n        point_tuple = tuple(point_set)",
  "        crossings = {}\n        for seg in a.segments():\n            for p in get_segment_convexpolygon_intersection_point_set(seg, b):\n                crossings[tuple(p)] = p\n        point_tuple = tuple(point_set) + tuple(crossings.values())",
  rule="R3.5", note="an edge crossing that coincides with a shared vertex up to float noise appears twice")
N("C03", "crossings-keyed-by-raw-coordinates-then-set", INTER, "inter_convexpolygon_convexpolygon",
  "        for seg in a.segments():\n            point_set = point_set.union(get_segment_convexpolygon_intersection_point_set(seg, b))\n        point_tuple = tuple(point_set)",
  "        crossings = {}\n        for seg in a.segments():\n            for p in get_segment_convexpolygon_intersection_point_set(seg, b):\n                crossings[tuple(p)] = p\n        point_tuple = tuple(point_set.union(set(crossings.values())))",
  note="the dictionary's values are merged again by the tolerant hash")
# the raw-coordinate identity map of C02 is also what R19.6 must report
for _m in [m for m in CAT["C02"] if m.name in ("C02:hits-keyed-by-raw-coordinates", "C02:hits-keyed-by-the-point")]:
    for _p, _r in (("C19", "R19.6"),):
        if _m.kind == "fault":
            F(_p, _m.name.split(":", 1)[1], _m.file, _m.func, _m.find, _m.replace, rule=_r, count=_m.count, note=_m.note)
        else:
            N(_p, _m.name.split(":", 1)[1], _m.file, _m.func, _m.find, _m.replace, count=_m.count, note=_m.note)

CONTROLS = {
    "C01": ["C01:control-exact-numeric-rejection"],
    "C02": ["C02:control-exact-numeric-rejection", "C02:hits-keyed-by-raw-coordinates"],
    "C03": ["C03:control-exact-numeric-rejection", "C03:crossings-keyed-by-raw-coordinates"],
    "C12": ["C12:control-exact-numeric-rejection"],
    "C10": ["C10:exact-dot-truthiness"],
    "C19": ["C19:exact-zero-denominator", "C19:hits-keyed-by-raw-coordinates"],
}
