"""Mutant catalogue for the thorough tier's checker self-validation.

Every entry is one AST-level edit of one function, written against the
function's `ast.unparse` normal form (formatting- and position-independent).
`fault` edits are drawn from each rule's fault model and must be reported;
`neutral` edits are behaviour-preserving rewrites and must stay silent.
Whether the repository's own 87 tests kill a fault mutant was measured once
during development (see DESIGN.md) and is recorded in `tests_kill`; the
registered commands never run the test suite.
"""
from __future__ import annotations

from typing import Dict, List

from .selftest import Mutant

G = "Geometry3D/geometry/"
C = "Geometry3D/calc/"
U = "Geometry3D/utils/"
INTER = C + "intersection.py"

CAT: Dict[str, List[Mutant]] = {}


def F(prop, name, file, func, find, replace, rule=None, count=1, note=""):
    CAT.setdefault(prop, []).append(Mutant(prop + ":" + name, "fault", file, func, find, replace, rule, count, note))


def N(prop, name, file, func, find, replace, count=1, note=""):
    CAT.setdefault(prop, []).append(Mutant(prop + ":" + name, "neutral", file, func, find, replace, None, count, note))


# =========================================================================== C04
F("C04", "retarget-row", INTER, "intersection",
  "    elif isinstance(a, Line) and isinstance(b, Point):\n        return inter_point_line(b, a)",
  "    elif isinstance(a, Line) and isinstance(b, Point):\n        return inter_point_plane(b, a)", note="row calls another handler")
F("C04", "swap-args-segment-line", INTER, "intersection",
  "    elif isinstance(a, Segment) and isinstance(b, Line):\n        return inter_line_segment(b, a)",
  "    elif isinstance(a, Segment) and isinstance(b, Line):\n        return inter_line_segment(a, b)", note="(a, b)/(b, a) slip")
F("C04", "swap-args-cph-cpg", INTER, "intersection",
  "    elif isinstance(a, ConvexPolygon) and isinstance(b, ConvexPolyhedron):\n        return inter_convexpolygon_convexPolyhedron(b, a)",
  "    elif isinstance(a, ConvexPolygon) and isinstance(b, ConvexPolyhedron):\n        return inter_convexpolygon_convexPolyhedron(a, b)")
F("C04", "delete-row", INTER, "intersection",
  "    elif isinstance(a, HalfLine) and isinstance(b, Plane):\n        return inter_plane_halfline(b, a)\n", "", rule="R4.1")
F("C04", "shadow-rows", INTER, "intersection",
  "    elif isinstance(a, Point) and isinstance(b, Line):\n        return inter_point_line(a, b)",
  "    elif isinstance(a, Point):\n        return inter_point_line(a, b)", note="one row shadows the later Point rows")
F("C04", "same-operand-twice", INTER, "intersection",
  "    elif isinstance(a, ConvexPolyhedron) and isinstance(b, Plane):",
  "    elif isinstance(a, ConvexPolyhedron) and isinstance(a, Plane):", rule="R4.1", note="the original defect pattern")
F("C04", "pass-a-twice", INTER, "intersection",
  "    elif isinstance(a, Segment) and isinstance(b, Segment):\n        return inter_segment_segment(a, b)",
  "    elif isinstance(a, Segment) and isinstance(b, Segment):\n        return inter_segment_segment(a, a)", rule="R4.2")
F("C04", "return-carrier-type", INTER, "inter_line_segment", "        return s\n", "        return l\n", rule="R4.6",
  note="Line is not a documented result of Line x Segment")
F("C04", "switch-wrong-type", INTER, "inter_line_halfline", "    elif isinstance(inter, Line):", "    elif isinstance(inter, Segment):",
  rule="R4.7", note="type switch no longer handles Line")
F("C04", "switch-drops-none", INTER, "inter_plane_segment", "    if inter_p_l is None:\n        return None\n    elif", "    if",
  rule="R4.7", note="None falls into the internal raise")
F("C04", "none-test-one-sided", INTER, "intersection", "    if a is None or b is None:", "    if a is None:", rule="R4.5")
F("C04", "method-form-swapped", G + "body.py", "GeoBody.intersection", "return intersection(self, other)",
  "return intersection(other, self)", rule="R4.4")
F("C04", "membership-unsupported-pair", INTER, "inter_plane_convexpolyhedron", "        if cpg in a:", "        if a in cpg:", rule="R4.8",
  note="Plane in ConvexPolygon returns a NotImplementedError object")
F("C04", "documented-type-exceeded", INTER, "inter_point_segment", "        return p\n", "        return s\n", rule="R4.6")
F("C04", "attr-of-wrong-class", INTER, "inter_line_halfline", "inter = intersection(l, h.line)", "inter = intersection(l, h.plane)",
  rule="R4.2", note="HalfLine has no .plane")
N("C04", "reorder-disjoint-rows", INTER, "intersection",
  "    elif isinstance(a, Point) and isinstance(b, Line):\n        return inter_point_line(a, b)\n    elif isinstance(a, Line) and isinstance(b, Point):\n        return inter_point_line(b, a)\n    elif isinstance(a, Point) and isinstance(b, Plane):\n        return inter_point_plane(a, b)\n    elif isinstance(a, Plane) and isinstance(b, Point):\n        return inter_point_plane(b, a)",
  "    elif isinstance(a, Point) and isinstance(b, Plane):\n        return inter_point_plane(a, b)\n    elif isinstance(a, Plane) and isinstance(b, Point):\n        return inter_point_plane(b, a)\n    elif isinstance(a, Point) and isinstance(b, Line):\n        return inter_point_line(a, b)\n    elif isinstance(a, Line) and isinstance(b, Point):\n        return inter_point_line(b, a)")
N("C04", "rename-handler-params", INTER, "inter_point_plane", "pnt", "q0", count=0)
N("C04", "demorgan", INTER, "inter_segment_convexpolygon",
  "        if not inter_l_p in a or not inter_l_p in b:\n            return None\n        else:\n            return inter_l_p",
  "        if inter_l_p in a and inter_l_p in b:\n            return inter_l_p\n        else:\n            return None")
N("C04", "reorder-switch-arms", INTER, "inter_line_segment",
  "    elif isinstance(inter, Line):\n        return s\n    elif isinstance(inter, Point):\n        return intersection(inter, s)",
  "    elif isinstance(inter, Point):\n        return intersection(inter, s)\n    elif isinstance(inter, Line):\n        return s")
N("C04", "implicit-none", INTER, "inter_point_point", "    else:\n        return None", "")
N("C04", "other-exception-message", INTER, "intersection", "'not implement intersecting %s with %s'", "'unsupported operands: %s and %s'")
N("C04", "swap-and-operands", INTER, "inter_segment_segment", "if inter_l_l in a and inter_l_l in b:", "if inter_l_l in b and inter_l_l in a:")
N("C04", "isinstance-tuple", INTER, "inter_segment_convexpolygon",
  "elif isinstance(inter_l_cpg, Point) or isinstance(inter_l_cpg, Segment):", "elif isinstance(inter_l_cpg, (Point, Segment)):")

# =========================================================================== C15
F("C15", "delete-line-guard", G + "line.py", "Line.__init__",
  "    if self.dv == Vector.zero():\n        raise ValueError('Invalid Line, Vector(0 | 0 | 0)')", "    pass", rule="R15.1")
F("C15", "line-guard-exact", G + "line.py", "Line.__init__", "if self.dv == Vector.zero():",
  "if self.dv[0] == 0 and self.dv[1] == 0 and self.dv[2] == 0:", rule="R15.1", note="guard no longer tolerance-aware")
F("C15", "segment-pp-guard-deleted", G + "segment.py", "Segment.__init__",
  "        if a == b:\n            raise ValueError('Cannot initialize a Segment with two identical Points')\n", "", rule="R15.1")
F("C15", "segment-pv-guard-negative", G + "segment.py", "Segment.__init__", "if b.length() < get_eps():", "if b.length() < 0:", rule="R15.1")
F("C15", "halfline-pv-guard-deleted", G + "halfline.py", "HalfLine.__init__",
  "        if b.length() < get_eps():\n            raise ValueError('Cannot initialize a HalfLine with the length of Vector is 0')\n", "", rule="R15.1")
F("C15", "halfline-identity-test", G + "halfline.py", "HalfLine.__init__", "        if a == b:", "        if a is b:", rule="R15.1",
  note="identity instead of tolerance equality")
F("C15", "segment-else-returns", G + "segment.py", "Segment.__init__",
  "        raise ValueError('Cannot create segment with type:%s and %s' % (type(a), type(b)))", "        return None", rule="R15.2")
F("C15", "polygon-count-2", G + "polygon.py", "ConvexPolygon.__init__", "if len(points) < 3:", "if len(points) < 2:", rule="R15.1")
F("C15", "polygon-count-deleted", G + "polygon.py", "ConvexPolygon.__init__",
  "    if len(points) < 3:\n        raise ValueError('Cannot build a polygon with number of points smaller than 3')\n", "", rule="R15.1")
F("C15", "coplanarity-if-false", G + "polygon.py", "ConvexPolygon._check_and_sort_points", "if not point in self.plane:", "if False:", rule="R15.1")
F("C15", "coplanarity-continue-first", G + "polygon.py", "ConvexPolygon._check_and_sort_points",
  "    for point in self.points:\n        if not point in self.plane:",
  "    for point in self.points:\n        if point == self.points[0]:\n            angle_point_dict[0.0] = point\n            continue\n        if not point in self.plane:",
  rule="R15.1", note="an iteration can complete without the check")
F("C15", "coplanarity-first-three-only", G + "polygon.py", "ConvexPolygon._check_and_sort_points",
  "if not point in self.plane:", "if not self.points[0] in self.plane:", rule="R15.1", note="guard no longer depends on the loop element")
F("C15", "check-call-dropped", G + "polygon.py", "ConvexPolygon.__init__", "    self._check_and_sort_points()", "    pass", rule="R15.1")
F("C15", "parallelogram-guard-deleted", G + "polygon.py", "ConvexPolygon.Parallelogram",
  "        elif v1.parallel(v2):\n            raise ValueError(\"The two vectors shouldn't be parallel to each other\")\n", "", rule="R15.1")
F("C15", "parallelogram-type-else-returns", G + "polygon.py", "ConvexPolygon.Parallelogram",
  "    else:\n        raise TypeError(", "    else:\n        return TypeError(", rule="R15.2")
F("C15", "parallelepiped-one-pair-dropped", G + "polyhedron.py", "ConvexPolyhedron.Parallelepiped",
  "elif v1.parallel(v2) or v1.parallel(v3) or v2.parallel(v3):", "elif v1.parallel(v2) or v1.parallel(v3):", rule="R15.1")
F("C15", "pyramid-guard-deleted", G + "pyramid.py", "Pyramid.__init__",
  "        if self.point in self.convex_polygon.plane:\n            raise ValueError('Cannot create Pyramid with point on the polygon plane')\n", "", rule="R15.1")
F("C15", "pyramid-guard-wrong-subject", G + "pyramid.py", "Pyramid.__init__", "if self.point in self.convex_polygon.plane:",
  "if self.convex_polygon.points[0] in self.convex_polygon.plane and False:", rule="R15.1")
F("C15", "euler-check-dropped", G + "polyhedron.py", "ConvexPolyhedron.__init__", "    if not self._euler_check():", "    if False:", rule="R15.1")
F("C15", "normal-check-dropped", G + "polyhedron.py", "ConvexPolyhedron.__init__",
  "    if not self._check_normal():\n        raise ValueError('Check Normal Fails For The Convex Polyhedron')\n", "", rule="R15.1")
F("C15", "circle-n-1", G + "polygon.py", "get_circle_point_list", "if n <= 2:", "if n <= 1:", rule="R15.1")
F("C15", "circle-n-after-return", G + "polygon.py", "get_circle_point_list", "    if n <= 2:", "    if n <= 2 and radius < 0:", rule="R15.1")
F("C15", "pointlist-count-deleted", C + "aux_calc.py", "get_segment_from_point_list",
  "    if len(point_list) < 2:\n        raise ValueError('The length of point list mush be no less than 2')\n", "", rule="R15.1")
F("C15", "pointlist-collinearity-deleted", C + "aux_calc.py", "get_segment_from_point_list",
  "        if not vi.parallel(v0):\n            raise ValueError('The points are not on a line')\n", "", rule="R15.1")
F("C15", "distance-else-returns", C + "distance.py", "distance", "    else:\n        raise NotImplementedError(", "    else:\n        return NotImplementedError(")
F("C15", "angle-else-none", C + "angle.py", "angle",
  "    else:\n        raise NotImplementedError('Not implement angle function between %s and %s' % (type(a), type(b)))", "    else:\n        return None", rule="R15.2")
F("C15", "volume-else-zero", C + "volume.py", "volume", "        raise ValueError('No attribut volume for this object')", "        return 0", rule="R15.2")
F("C15", "intersection-else-none", INTER, "intersection",
  "    else:\n        raise NotImplementedError('not implement intersecting %s with %s' % (type(a), type(b)))", "    else:\n        return None", rule="R15.2")
F("C15", "point-move-return", G + "point.py", "Point.move",
  "        raise NotImplementedError('The second parameter for move function must be Vector')", "        return self", rule="R15.2")
F("C15", "plane-move-return-again", G + "plane.py", "Plane.move", "        raise NotImplementedError(", "        return NotImplementedError(")
F("C15", "polyhedron-move-guard-dropped", G + "polyhedron.py", "ConvexPolyhedron.move", "if isinstance(v, Vector):", "if v is not None:", rule="R15.2")
F("C15", "segment-forgets-field", G + "segment.py", "Segment.__init__",
  "        self.line = Line(a, b)\n        self.start_point = a\n        self.end_point = Point(a.pv() + b)", "        self.line = Line(a, b)\n        self.start_point = a", rule="R15.4")
N("C15", "line-guard-rewritten", G + "line.py", "Line.__init__", "if self.dv == Vector.zero():", "if Vector.zero() == self.dv:")
N("C15", "line-guard-null-vector", G + "line.py", "Line.__init__",
  "    if self.dv == Vector.zero():\n        raise ValueError('Invalid Line, Vector(0 | 0 | 0)')",
  "    zero = Vector.zero()\n    degenerate = self.dv == zero\n    if degenerate:\n        raise ValueError('Invalid Line, Vector(0 | 0 | 0)')")
N("C15", "segment-guards-reordered", G + "segment.py", "Segment.__init__",
  "        if a == b:\n            raise ValueError('Cannot initialize a Segment with two identical Points')\n        self.line = Line(a, b)\n        self.start_point = a\n        self.end_point = b",
  "        self.start_point = a\n        self.end_point = b\n        if a == b:\n            raise ValueError('Cannot initialize a Segment with two identical Points')\n        self.line = Line(a, b)")
N("C15", "count-guard-ge", G + "polygon.py", "ConvexPolygon.__init__", "if len(points) < 3:", "if not len(points) >= 3:")
N("C15", "count-guard-le2", G + "polygon.py", "ConvexPolygon.__init__", "if len(points) < 3:", "if len(points) <= 2:")
N("C15", "circle-n-lt3", G + "polygon.py", "get_circle_point_list", "if n <= 2:", "if n < 3:")
N("C15", "coplanarity-not-in", G + "polygon.py", "ConvexPolygon._check_and_sort_points", "if not point in self.plane:", "if point not in self.plane:")
N("C15", "pyramid-guard-local", G + "pyramid.py", "Pyramid.__init__", "        if self.point in self.convex_polygon.plane:",
  "        base_plane = self.convex_polygon.plane\n        if p in base_plane:")
N("C15", "move-else-typeerror", G + "line.py", "Line.move",
  "raise NotImplementedError('The second parameter for move function must be Vector')", "raise TypeError('move() needs a Vector')")
N("C15", "euler-inline", G + "polyhedron.py", "ConvexPolyhedron.__init__", "    if not self._euler_check():",
  "    closed = self._euler_check()\n    if not closed:")

# =========================================================================== C19
F("C19", "stale-sig-in-point-hash", G + "point.py", None,
  "from ..utils.constant import get_sig_figures, get_eps", "from ..utils.constant import get_sig_figures, get_eps, SIG_FIGURES")
CAT["C19"].pop()  # (import alone is harmless; the real mutant follows)
F("C19", "stale-sig-in-line-hash", G + "line.py", "Line.__hash__", "round(self.dv[0], get_sig_figures())", "round(self.dv[0], SIG_FIGURES)", rule="R19.1")
F("C19", "stale-eps-in-plane-contains", G + "plane.py", "Plane.__contains__", "< get_eps()", "< FLOAT_EPS", rule="R19.1")
F("C19", "module-level-copy", U + "solver.py", None, "def null(f):\n    return abs(f) < get_eps()",
  "EPS = get_eps()\n\ndef null(f):\n    return abs(f) < EPS", rule="R19.1")
F("C19", "default-argument-copy", U + "solver.py", None, "def null(f):\n    return abs(f) < get_eps()",
  "def null(f, eps=get_eps()):\n    return abs(f) < eps", rule="R19.1")
F("C19", "cached-on-self", G + "segment.py", "Segment.__init__", "    a = copy.deepcopy(a)\n", "    a = copy.deepcopy(a)\n    self.eps = get_eps()\n", rule="R19.1")
F("C19", "class-level-copy", G + "point.py", None, "    class_level = 0\n", "    class_level = 0\n    digits = get_sig_figures()\n", rule="R19.1")
F("C19", "hard-coded-precision", G + "point.py", "Point.__hash__", "round(self.z, get_sig_figures()))", "round(self.z, 10))", rule="R19.4",
  count=1)
F("C19", "literal-tolerance", U + "vector.py", "Vector.orthogonal", "abs(self * other) < get_eps()", "abs(self * other) < 1e-10", rule="R19.3")
F("C19", "literal-tolerance-halfline", G + "halfline.py", "HalfLine.__contains__", "return v1 * self.vector > -get_eps()", "return v1 * self.vector > -1e-09", rule="R19.3")
F("C19", "setter-one-global", U + "constant.py", "set_eps", "\n    SIG_FIGURES = round(log10(1 / eps))", "", rule="R19.2")
F("C19", "setter-wrong-formula", U + "constant.py", "set_sig_figures", "FLOAT_EPS = 1 / 10 ** SIG_FIGURES", "FLOAT_EPS = 1 / 10 * SIG_FIGURES", rule="R19.2")
F("C19", "setter-sign-error", U + "constant.py", "set_eps", "SIG_FIGURES = round(log10(1 / eps))", "SIG_FIGURES = round(log10(eps))", rule="R19.2")
F("C19", "setter-missing-global-decl", U + "constant.py", "set_eps", "global FLOAT_EPS, SIG_FIGURES", "global FLOAT_EPS", rule="R19.2")
F("C19", "default-drift", U + "constant.py", "set_eps", "def set_eps(eps=1e-10):", "def set_eps(eps=1e-09):", rule="R19.2")
N("C19", "getter-into-local", G + "point.py", "Point.__eq__", "    if isinstance(other, Point):\n        return abs(self.x - other.x) < get_eps() and",
  "    if isinstance(other, Point):\n        eps = get_eps()\n        return abs(self.x - other.x) < eps and")
N("C19", "precision-into-local", G + "line.py", "Line.__hash__",
  "    return hash(('Line', round(self.dv[0], get_sig_figures()),", "    n = get_sig_figures()\n    return hash(('Line', round(self.dv[0], n),")
N("C19", "setter-equivalent-formula", U + "constant.py", "set_eps", "SIG_FIGURES = round(log10(1 / eps))", "SIG_FIGURES = round(-log10(eps))")
N("C19", "setter-from-param", U + "constant.py", "set_sig_figures", "FLOAT_EPS = 1 / 10 ** SIG_FIGURES", "FLOAT_EPS = 10 ** (-sig_figures)")
N("C19", "module-attribute-read-is-live", U + "solver.py", None, "from .constant import get_eps\n\ndef shape(m):",
  "from .constant import get_eps\nfrom . import constant\n\ndef shape(m):")
N("C19", "coarser-literal", G + "polygon.py", "get_circle_point_list", "angle_i = math.pi * 2 / n * i", "angle_i = math.pi * 2.0 / n * i")


def catalogue(prop: str) -> List[Mutant]:
    return list(CAT.get(prop, []))
