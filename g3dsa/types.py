"""E1 -- type-set inference: a finite abstract interpretation of the package.

Abstract value = frozenset of tags.  Tags:
  'None' 'bool' 'num' 'str' 'Exc' 'type' 'Ext' 'lambda'
  '<ClassName>'                       an instance of a package class
  ('list'|'tuple'|'set'|'iter', frozenset(elem tags))
  ('ftuple', (value, value, ...))     a tuple of statically known length
  ('dict', frozenset(key tags), frozenset(value tags))
  ('bound', 'Class.method')           a bound method used as a value
  ('func', qual) / ('cls', name)      first-class function / class objects
  ('Unknown', reason)

Summaries are context-sensitive on the tuple of argument values, memoised and
solved by Kleene iteration (the dispatcher and its handlers are mutually
recursive).  Nothing is executed.
"""
from __future__ import annotations

import ast
import builtins as _builtins
import itertools
from typing import Dict, FrozenSet, List, Optional, Set, Tuple

from .model import AnalysisError, ClassInfo, FunctionInfo, Repo, norm_text, walk_local

FS = frozenset
BOT: FrozenSet = FS()


def S(*tags) -> FrozenSet:
    return FS(tags)


NUM = S("num")
BOOL = S("bool")
STR = S("str")
NONE = S("None")
EXC = S("Exc")
EXT = S("Ext")

BUILTIN_EXC = {
    "Exception", "ValueError", "TypeError", "NotImplementedError", "IndexError", "KeyError",
    "ZeroDivisionError", "RuntimeError", "AttributeError", "ArithmeticError", "AssertionError",
    "ModuleNotFoundError", "ImportError", "StopIteration", "OverflowError",
}
NUM_BUILTINS = {"len", "float", "int", "round", "hash", "abs", "ord", "pow", "divmod", "id"}
SEQ_KINDS = ("list", "tuple", "set", "iter")
CONTAINER_MUT = {"add", "append", "extend", "update", "insert", "remove", "discard", "pop", "clear", "sort", "reverse"}

# dunder tables
BINOPS = {
    ast.Add: ("__add__", "__radd__"), ast.Sub: ("__sub__", "__rsub__"), ast.Mult: ("__mul__", "__rmul__"),
    ast.Div: ("__truediv__", "__rtruediv__"), ast.FloorDiv: ("__floordiv__", "__rfloordiv__"),
    ast.Mod: ("__mod__", "__rmod__"), ast.Pow: ("__pow__", "__rpow__"), ast.MatMult: ("__matmul__", "__rmatmul__"),
    ast.BitOr: ("__or__", "__ror__"), ast.BitAnd: ("__and__", "__rand__"), ast.BitXor: ("__xor__", "__rxor__"),
    ast.LShift: ("__lshift__", "__rlshift__"), ast.RShift: ("__rshift__", "__rrshift__"),
}
UNOPS = {ast.USub: "__neg__", ast.UAdd: "__pos__", ast.Invert: "__invert__"}


# Numeric-kernel type facts (assumption A4): the value is what the kernel's
# geometry says, which the type domain cannot see.  Keyed by (function, local).
KERNEL_TYPE_FACTS = {
    # (function, callee whose result is assigned to a local): the local's type
    ("inter_plane_plane", "inter_line_plane"): (
        "Point",
        "the auxiliary line lies in plane a, is orthogonal to the common direction and a is not parallel to b on "
        "this path, so it meets b in exactly one point",
    ),
}

def _no_none_elems(v):
    out = set()
    for t in v:
        if isinstance(t, tuple) and t[0] in ("list", "tuple", "set", "iter"):
            out.add((t[0], FS(x for x in t[1] if x != "None" and not (isinstance(x, tuple) and x[0] == "Unknown"))))
        else:
            out.add(t)
    return FS(out)


# Return-value facts of numeric kernels that are *not* claimed (C16/C17 are not
# applicable): the solver is assumed to assign every unknown a number.
RETURN_FACTS = {
    "Solution.__call__": (_no_none_elems, "solver assigns a number to every unknown (C16/C17 not claimed)"),
}

# Modelled library stubs: (function short name) -> reason.  The body is still
# analysed by the other engines; E1 uses the documented result shape.
STUBS = {
    "unify_types": "documented: returns a list with every item converted to one common numeric type",
}


def is_unknown(t) -> bool:
    return isinstance(t, tuple) and t and t[0] == "Unknown"


def unknown(reason: str) -> FrozenSet:
    return S(("Unknown", reason))


def has_unknown(v: FrozenSet) -> bool:
    return any(is_unknown(t) for t in v)


def elems_of_tag(t) -> FrozenSet:
    if isinstance(t, tuple):
        if t[0] in SEQ_KINDS:
            return t[1]
        if t[0] == "ftuple":
            out = set()
            for x in t[1]:
                out |= x
            return FS(out)
        if t[0] == "dict":
            return t[1]
    return None  # type: ignore


def seq(kind: str, elems: FrozenSet) -> FrozenSet:
    return S((kind, FS(elems)))


def norm(v: FrozenSet) -> FrozenSet:
    """merge container tags of the same kind (keeps the lattice small)"""
    kinds = {}
    rest = set()
    for t in v:
        if isinstance(t, tuple) and t[0] in SEQ_KINDS:
            kinds[t[0]] = kinds.get(t[0], BOT) | t[1]
        else:
            rest.add(t)
    if len(kinds) + len(rest) == len(v):
        return v
    for k, el in kinds.items():
        rest.add((k, el))
    return FS(rest)


def show(v) -> str:
    def st(t):
        if isinstance(t, tuple):
            if t[0] in SEQ_KINDS:
                return "%s[%s]" % (t[0], show(t[1]))
            if t[0] == "ftuple":
                return "(" + ", ".join(show(x) for x in t[1]) + ")"
            if t[0] == "dict":
                return "dict[%s:%s]" % (show(t[1]), show(t[2]))
            if t[0] == "Unknown":
                return "Unknown<%s>" % t[1]
            return "%s<%s>" % (t[0], t[1])
        return str(t)

    return "|".join(sorted(st(t) for t in v)) if v else "⊥"


class Summary:
    __slots__ = ("ret", "reached", "raises", "normal", "branches", "ret_consts", "ret_nonconst", "ret_elem_consts")

    def __init__(self):
        self.ret_consts: Set = set()  # constant values returned in this context (ints / None)
        self.ret_nonconst = False  # some return value is not a known constant
        self.ret_elem_consts: Dict[int, Set] = {}  # tuple returns: element index -> constants seen there ("?" = not constant)
        self.branches: Set[Tuple[int, bool]] = set()  # feasible (if-stmt, outcome) pairs
        self.ret: FrozenSet = BOT
        self.reached: Set[int] = set()  # id(stmt) of statements reached
        self.raises: Set[int] = set()
        self.normal = False  # some path reaches a normal exit


class Env:
    __slots__ = ("vars", "consts")

    def __init__(self, vars=None, consts=None):
        self.vars: Dict[str, FrozenSet] = dict(vars or {})
        self.consts: Dict[str, object] = dict(consts or {})  # locals with a known constant value (e.g. n = len(args))

    def copy(self):
        return Env(self.vars, self.consts)

    def get(self, k):
        return self.vars.get(k)

    def set(self, k, v):
        self.vars[k] = v


def join_env(a: Optional[Env], b: Optional[Env]) -> Optional[Env]:
    if a is None:
        return b
    if b is None:
        return a
    out = {}
    for k in set(a.vars) | set(b.vars):
        out[k] = norm(a.vars.get(k, BOT) | b.vars.get(k, BOT))
    consts = {k: v for k, v in a.consts.items() if k in b.consts and b.consts[k] == v}
    return Env(out, consts)


class TypeEngine:
    MAX_SPLIT = 64

    _rebound: Dict[str, Set[str]] = {}
    pout: Dict[Tuple[str, str], FrozenSet] = {}

    def __init__(self, repo: Repo):
        self._rebound = {}
        self.pout = {}
        self.repo = repo
        self.fields: Dict[Tuple[str, str], FrozenSet] = {}
        self.memo: Dict[Tuple[str, tuple], Summary] = {}
        self.inprog: Set[Tuple[str, tuple]] = set()
        self.done_iter: Set[Tuple[str, tuple]] = set()
        self.changed = False
        self.final = False
        self.node_types: Dict[Tuple[str, int], FrozenSet] = {}
        self.ctx_node_types: Dict[Tuple[str, tuple, int], FrozenSet] = {}
        self.call_targets: Dict[Tuple[str, int], Set[str]] = {}
        self.ctx_edges: Dict[Tuple[str, tuple], Set[Tuple[str, tuple]]] = {}  # context-sensitive call graph
        self.in_sites: Dict[Tuple[str, int], Set[Tuple]] = {}
        self.op_targets: Dict[Tuple[str, int], Set[str]] = {}  # operator / protocol dispatch
        self.anomalies: List[Tuple[str, int, str]] = []  # (fn qual, lineno, text)
        self.unresolved_calls: Set[Tuple[str, str, str]] = set()
        self.fn_by_qual: Dict[str, FunctionInfo] = {f.qual: f for f in repo.functions()}
        self.class_by_name: Dict[str, ClassInfo] = {}
        for c in repo.classes():
            if c.name in self.class_by_name:
                raise AnalysisError("duplicate class name %s" % c.name)
            self.class_by_name[c.name] = c
        self.iterations = 0
        self.stub_uses: Set[str] = set()
        self.kernel_fact_uses: Set[Tuple[str, str]] = set()
        self.suppress = 0
        self.contexts: Dict[str, Set[tuple]] = {}
        self._stack: List = []

    # ------------------------------------------------------------------ driver
    def note_pout(self, fi: FunctionInfo, env: "Env"):
        """at a normal exit of a plain function: element types its container parameters have acquired (out-parameters
        filled with .add / .append); joined over all contexts"""
        if fi.cls is not None:
            return
        if not hasattr(self, "pout"):
            self.pout = {}
        rebound = self._rebound.get(fi.qual)
        if rebound is None:
            from .astutil import assigned_names
            rebound = self._rebound[fi.qual] = set(assigned_names(fi.node))
        for p in fi.params:
            if p in rebound:
                continue
            v = env.get(p)
            if not v:
                continue
            cont = FS(t for t in v if isinstance(t, tuple) and t[0] in ("set", "list") and t[1])
            if not cont:
                continue
            old = self.pout.get((fi.qual, p), BOT)
            if not cont <= old:
                self.pout[(fi.qual, p)] = old | cont
                self.changed = True

    def solve(self, entries: List[Tuple[FunctionInfo, tuple]], max_iter: int = 25):
        for it in range(max_iter):
            self.changed = False
            self.done_iter = set()
            for fi, args in entries:
                self.call(fi, args)
            self.iterations = it + 1
            if not self.changed:
                break
        else:
            raise AnalysisError("type inference did not converge in %d iterations" % max_iter)
        # final pass: record anomalies with the stable tables
        self.final = True
        self.done_iter = set()
        self.anomalies = []
        self.unresolved_calls = set()
        for fi, args in entries:
            self.call(fi, args)
        self.final = False

    # ------------------------------------------------------------------ calls
    def call(self, fi: FunctionInfo, args: tuple, kwargs: Optional[dict] = None) -> FrozenSet:
        """args: tuple of values for the positional parameters (self included)."""
        bound = self._bind(fi, args, kwargs or {})
        key = (fi.qual, bound)
        if fi.short in STUBS and fi.short == "unify_types":
            self.stub_uses.add(fi.short)
        self.contexts.setdefault(fi.qual, set()).add(bound)
        if self._stack:
            self.ctx_edges.setdefault(self._stack[-1], set()).add(key)
        sm = self.memo.get(key)
        if sm is None:
            sm = self.memo[key] = Summary()
        if key in self.inprog or key in self.done_iter:
            return sm.ret
        if len(self._stack) > 60:
            return sm.ret
        self.inprog.add(key)
        self._stack.append(key)
        try:
            fr = Frame(self, fi, bound, sm)
            fr.run()
        finally:
            self._stack.pop()
            self.inprog.discard(key)
            self.done_iter.add(key)
        return sm.ret

    def _bind(self, fi: FunctionInfo, args: tuple, kwargs: dict) -> tuple:
        """-> tuple of (name, value) in parameter order"""
        node = fi.node
        out = []
        ps = fi.params
        n_def = len(fi.defaults)
        first_def = len(ps) - n_def
        args = list(args)
        for i, p in enumerate(ps):
            if i < len(args):
                out.append((p, args[i]))
            elif p in kwargs:
                out.append((p, kwargs[p]))
            elif i >= first_def:
                out.append((p, self._const_type(fi.defaults[i - first_def])))
            else:
                out.append((p, unknown("missing argument %s" % p)))
        if fi.vararg:
            extra = args[len(ps):]
            out.append((fi.vararg, S(("ftuple", tuple(extra)))))
        elif len(args) > len(ps):
            if self.final:
                self.anomalies.append((fi.qual, fi.node.lineno, "called with %d positional arguments" % len(args)))
        for k in fi.kwonly:
            if k in kwargs:
                out.append((k, kwargs[k]))
            else:
                idx = fi.kwonly.index(k)
                d = node.args.kw_defaults[idx]
                out.append((k, self._const_type(d) if d is not None else unknown("missing kwonly")))
        return tuple(out)

    def _const_type(self, node) -> FrozenSet:
        if isinstance(node, ast.Constant):
            v = node.value
            if v is None:
                return NONE
            if isinstance(v, bool):
                return BOOL
            if isinstance(v, (int, float, complex)):
                return NUM
            if isinstance(v, str):
                return STR
        if isinstance(node, ast.UnaryOp):
            return self._const_type(node.operand)
        if isinstance(node, ast.Name):
            import builtins as _b
            if node.id in BUILTIN_EXC or (hasattr(_b, node.id) and isinstance(getattr(_b, node.id), type)
                                          and issubclass(getattr(_b, node.id), BaseException)):
                return S(("cls", node.id))  # `exc=TypeError`: an exception class as default
            if hasattr(_b, node.id):
                return S(("builtin", node.id))
        return unknown("default")

    def is_class_tag(self, t) -> bool:
        return isinstance(t, str) and t in self.class_by_name

    def split(self, vals: List[FrozenSet]) -> List[Tuple[FrozenSet, ...]]:
        """Split argument value sets into singleton combinations (bounded)."""
        n = 1
        for v in vals:
            n *= max(1, len(v))
        if n > self.MAX_SPLIT or any(len(v) == 0 for v in vals):
            return [tuple(vals)]
        return [tuple(S(t) for t in combo) for combo in itertools.product(*[sorted(v, key=repr) for v in vals])]

    def call_split(self, fi: FunctionInfo, vals: List[FrozenSet], kwargs=None) -> FrozenSet:
        out = BOT
        if any(len(v) == 0 for v in vals):
            return BOT  # an argument has no feasible value: the call is not reached
        for combo in self.split(vals):
            out |= self.call(fi, combo, kwargs)
        return out

    def construct(self, cls: ClassInfo, vals: List[FrozenSet], kwargs=None) -> FrozenSet:
        if cls.name in BUILTIN_EXC:
            return EXC
        init = cls.lookup("__init__")
        if init is None:
            return S(cls.name)
        if any(len(v) == 0 for v in vals):
            return BOT
        ok = False
        for combo in self.split(vals):
            self.call(init, (S(cls.name),) + combo, kwargs)
            b = self._bind(init, (S(cls.name),) + combo, kwargs or {})
            sm = self.memo.get((init.qual, b))
            if sm is not None and sm.normal:
                ok = True
        return S(cls.name) if ok else BOT

    def field(self, cls: str, attr: str) -> Optional[FrozenSet]:
        c = self.class_by_name.get(cls)
        if c is None:
            return None
        for k in c.mro():
            v = self.fields.get((k.name, attr))
            if v is not None:
                return v
        return None

    def store_field(self, cls: str, attr: str, v: FrozenSet):
        old = self.fields.get((cls, attr), BOT)
        new = norm(old | v)
        if new != old:
            self.fields[(cls, attr)] = new
            self.changed = True

    # queries used by rules -------------------------------------------------
    def call_graph(self) -> Dict[str, Set[str]]:
        g: Dict[str, Set[str]] = {}
        for src in (self.call_targets, self.op_targets):
            for (q, _), tg in src.items():
                g.setdefault(q, set()).update(tg)
        return g

    def transitive_callers_of(self, quals: Set[str]) -> Set[str]:
        g = self.call_graph()
        rev: Dict[str, Set[str]] = {}
        for a, bs in g.items():
            for b in bs:
                rev.setdefault(b, set()).add(a)
        seen = set(quals)
        todo = list(quals)
        while todo:
            x = todo.pop()
            for y in rev.get(x, ()):
                if y not in seen:
                    seen.add(y)
                    todo.append(y)
        return seen

    def reached_from(self, roots) -> Set[str]:
        """qualified names of the functions reached from the contexts [(fi, args)] through the context-sensitive call graph"""
        todo = [(fi.qual, self._bind(fi, args, {})) for fi, args in roots]
        for k in todo:
            if k not in self.memo:
                raise AnalysisError("context %s%s was never analysed" % (k[0], [show(v) for _, v in k[1]]))
        seen = set(todo)
        while todo:
            k = todo.pop()
            for k2 in self.ctx_edges.get(k, ()):
                if k2 not in seen:
                    seen.add(k2)
                    todo.append(k2)
        return {k[0] for k in seen}

    def reached_from_functions(self, fis) -> Set[str]:
        """functions reached from every analysed context of the given functions (context-sensitive call graph)"""
        quals = {f.qual for f in fis}
        todo = [k for k in self.memo if k[0] in quals]
        seen = set(todo)
        while todo:
            k = todo.pop()
            for k2 in self.ctx_edges.get(k, ()):
                if k2 not in seen:
                    seen.add(k2)
                    todo.append(k2)
        return {k[0] for k in seen}

    def targets_in(self, fi: FunctionInfo, expr: ast.AST) -> Set[str]:
        out: Set[str] = set()
        for n in ast.walk(expr):
            out |= self.call_targets.get((fi.qual, id(n)), set())
            out |= self.op_targets.get((fi.qual, id(n)), set())
        return out

    def types_at(self, fi: FunctionInfo, node: ast.AST) -> FrozenSet:
        return self.node_types.get((fi.qual, id(node)), BOT)

    def summaries_of(self, fi: FunctionInfo) -> List[Tuple[tuple, Summary]]:
        return [(k[1], s) for k, s in self.memo.items() if k[0] == fi.qual]

    def reached_anywhere(self, fi: FunctionInfo, stmt: ast.AST) -> bool:
        return any(id(stmt) in s.reached for _, s in self.summaries_of(fi))

    def summary(self, fi: FunctionInfo, args: tuple) -> Optional[Summary]:
        return self.memo.get((fi.qual, self._bind(fi, args, {})))


class Frame:
    """Abstract execution of one function body in one context."""

    def __init__(self, eng: TypeEngine, fi: FunctionInfo, bound: tuple, sm: Summary):
        self.eng = eng
        self.fi = fi
        self.bound = bound
        self.sm = sm
        self.yields: FrozenSet = BOT
        self.loop_stack: List[dict] = []

    # -- bookkeeping
    def _update_ret(self, v: FrozenSet):
        rf = RETURN_FACTS.get(self.fi.short)
        if rf is not None:
            v = rf[0](v)
        if not v <= self.sm.ret:
            new = norm(self.sm.ret | v)
            if new != self.sm.ret:
                self.sm.ret = new
                self.eng.changed = True

    def record(self, node, v: FrozenSet):
        k = (self.fi.qual, id(node))
        old = self.eng.node_types.get(k, BOT)
        if not v <= old:
            self.eng.node_types[k] = old | v
        k2 = (self.fi.qual, self.bound, id(node))
        old = self.eng.ctx_node_types.get(k2, BOT)
        if not v <= old:
            self.eng.ctx_node_types[k2] = old | v

    def optarget(self, node, m):
        self.eng.op_targets.setdefault((self.fi.qual, id(node)), set()).add(m.qual)

    def _unresolved_callee(self, e):
        """a call through a variable / table entry whose callee the type inference cannot name (table-driven dispatch built at
        import time, callbacks, lambdas): everything downstream would be guesswork -- recorded, and the analysis stops"""
        if self.eng.final and not self.eng.suppress and isinstance(e.func, (ast.Name, ast.Subscript)) \
                and ".visualization" not in self.fi.module.name and not self.fi.module.name.endswith("utils.solver"):
            # (utils/solver.py applies its `count(f, row)` / `index(f, row)` helpers to lambdas: numbers in, numbers out; C16 is
            # not claimed)
            self.eng.unresolved_calls.add((self.fi.where(e), self.fi.short, ast.unparse(e)[:60]))

    def anomaly(self, node, text):
        if self.eng.final and not self.eng.suppress:
            self.eng.anomalies.append((self.fi.qual, getattr(node, "lineno", 0), text))

    def reach(self, stmt):
        if id(stmt) not in self.sm.reached:
            self.sm.reached.add(id(stmt))
            self.eng.changed = True

    def run(self):
        env = Env(dict(self.bound))
        if self.fi.short == "unify_types" and self.bound:
            # stub: list of numbers with the element structure of the argument
            self.eng.suppress += 1
            try:
                self.block(self.fi.node.body, env)
            finally:
                self.eng.suppress -= 1
            el = self.iter_elems(self.bound[0][1], self.fi.node)
            el = FS("num" if (t == "Ext" or t == "bool") else t for t in el)
            self._update_ret(seq("list", el))
            if not self.sm.normal:
                self.sm.normal = True
                self.eng.changed = True
            return
        out = self.block(self.fi.node.body, env)
        if out is not None:
            self.eng.note_pout(self.fi, out)
            if None not in self.sm.ret_consts:
                self.sm.ret_consts.add(None)
                self.eng.changed = True
            if not self.sm.normal:
                self.sm.normal = True
                self.eng.changed = True
            if not self.fi.is_generator:
                self._update_ret(NONE)
        if self.fi.is_generator:
            if not self.sm.normal:
                self.sm.normal = True
                self.eng.changed = True
            self._update_ret(seq("iter", self.yields))

    # -- statements
    def block(self, stmts, env: Optional[Env]) -> Optional[Env]:
        for s in stmts:
            if env is None:
                return None
            env = self.stmt(s, env)
        return env

    def stmt(self, s, env: Env) -> Optional[Env]:
        self.reach(s)
        if isinstance(s, ast.Return):
            v = self.ev(s.value, env) if s.value is not None else NONE
            if self.fi.short not in STUBS:
                self._update_ret(v)
            if v or s.value is None:
                self.eng.note_pout(self.fi, env)
                cv = (None,) if s.value is None else self.const_eval(s.value, env)
                if cv is not None and (cv[0] is None or isinstance(cv[0], int)):
                    if cv[0] not in self.sm.ret_consts:
                        self.sm.ret_consts.add(cv[0])
                        self.eng.changed = True
                elif not self.sm.ret_nonconst:
                    self.sm.ret_nonconst = True
                    self.eng.changed = True
                # a tuple result with a constant flag among its elements (`return u, v, True`)
                if isinstance(s.value, ast.Tuple):
                    for i, x in enumerate(s.value.elts):
                        cx = (x.value,) if isinstance(x, ast.Constant) and isinstance(x.value, bool) else self.const_eval(x, env)
                        val = cx[0] if cx is not None and (cx[0] is None or isinstance(cx[0], (int, bool))) else "?"
                        cur = self.sm.ret_elem_consts.setdefault(i, set())
                        if val not in cur:
                            cur.add(val)
                            self.eng.changed = True
                elif s.value is not None:
                    cur = self.sm.ret_elem_consts.setdefault(-1, set())
                    if "?" not in cur:
                        cur.add("?")  # some return is not a tuple display: no element constants
                        self.eng.changed = True
            if (v or s.value is None) and not self.sm.normal:
                # a `return f(...)` whose callee never returns (raises on every path / diverges) is not a normal exit
                self.sm.normal = True
                self.eng.changed = True
            return None
        if isinstance(s, ast.Raise):
            if s.exc is not None:
                self.ev(s.exc, env)
            if id(s) not in self.sm.raises:
                self.sm.raises.add(id(s))
                self.eng.changed = True
            return None
        if isinstance(s, ast.Assign):
            v = self.ev(s.value, env)
            if not v and isinstance(s.value, ast.Call) and self.eng.call_targets.get((self.fi.qual, id(s.value))):
                return None  # x = f(...) whose callee never returns in this context (it raises on every path): the path ends here
            env = env.copy()
            for t in s.targets:
                self.assign(t, v, env, s.value)
            return self._post_call(s.value, env)
        if isinstance(s, ast.AnnAssign):
            if s.value is not None:
                v = self.ev(s.value, env)
                env = env.copy()
                self.assign(s.target, v, env, s.value)
            return env
        if isinstance(s, ast.AugAssign):
            cur = self.ev(s.target, env)
            r = self.ev(s.value, env)
            v = self.binop(type(s.op), cur, r, s)
            env = env.copy()
            self.assign(s.target, v, env, s.value)
            return env
        if isinstance(s, ast.Expr):
            v0 = self.ev(s.value, env, stmt_env=env)
            if not v0 and isinstance(s.value, ast.Call) and isinstance(s.value.func, ast.Name) \
                    and self.eng.call_targets.get((self.fi.qual, id(s.value))):
                return None  # a validating helper that raises on every path in this context
            return self._post_expr(s.value, env)
        if isinstance(s, ast.If):
            folded = self.fold(s.test, env)
            self.ev(s.test, env)
            et = self.narrow(s.test, env, True) if folded is not False else None
            ef = self.narrow(s.test, env, False) if folded is not True else None
            if et is not None:
                self.sm.branches.add((id(s), True))
            if ef is not None:
                self.sm.branches.add((id(s), False))
            a = self.block(s.body, et) if et is not None else None
            b = self.block(s.orelse, ef) if ef is not None else None
            return join_env(a, b)
        if isinstance(s, (ast.For, ast.AsyncFor)):
            it = self.ev(s.iter, env)
            el = self.iter_elems(it, s.iter)
            self.loop_stack.append({"cont": None, "brk": None})
            e0 = env
            for _ in range(6):
                e1 = e0.copy()
                self.assign(s.target, el, e1, None)
                out = self.block(s.body, e1) if el or True else None
                out = join_env(out, self.loop_stack[-1]["cont"])
                new = join_env(e0, out)
                if new.vars == e0.vars:
                    break
                e0 = new
            fr = self.loop_stack.pop()
            done = e0
            if s.orelse:
                done = self.block(s.orelse, done)
            return join_env(done, fr["brk"])
        if isinstance(s, ast.While):
            self.loop_stack.append({"cont": None, "brk": None})
            e0 = env
            for _ in range(6):
                self.ev(s.test, e0)
                et = self.narrow(s.test, e0, True)
                out = self.block(s.body, et) if et is not None else None
                out = join_env(out, self.loop_stack[-1]["cont"])
                new = join_env(e0, out)
                if new.vars == e0.vars:
                    break
                e0 = new
            fr = self.loop_stack.pop()
            done = self.narrow(s.test, e0, False)
            if s.orelse and done is not None:
                done = self.block(s.orelse, done)
            return join_env(done, fr["brk"])
        if isinstance(s, ast.Continue):
            if self.loop_stack:
                self.loop_stack[-1]["cont"] = join_env(self.loop_stack[-1]["cont"], env)
            return None
        if isinstance(s, ast.Break):
            if self.loop_stack:
                self.loop_stack[-1]["brk"] = join_env(self.loop_stack[-1]["brk"], env)
            return None
        if isinstance(s, ast.Assert):
            self.ev(s.test, env)
            return self.narrow(s.test, env, True)
        if isinstance(s, (ast.Pass, ast.Import, ast.ImportFrom, ast.Global, ast.Nonlocal)):
            return env
        if isinstance(s, ast.Try):
            a = self.block(s.body, env)
            outs = a
            for h in s.handlers:
                outs = join_env(outs, self.block(h.body, env.copy()))
            if s.orelse and a is not None:
                outs = join_env(outs, self.block(s.orelse, a))
            if s.finalbody and outs is not None:
                outs = self.block(s.finalbody, outs)
            return outs
        if isinstance(s, ast.With):
            env = env.copy()
            for item in s.items:
                v = self.ev(item.context_expr, env)
                if item.optional_vars is not None:
                    self.assign(item.optional_vars, unknown("with"), env, None)
            return self.block(s.body, env)
        if isinstance(s, ast.Delete):
            return env
        if isinstance(s, (ast.FunctionDef, ast.ClassDef)):
            env = env.copy()
            env.set(s.name, S("lambda"))
            return env
        self.anomaly(s, "unmodelled statement %s" % type(s).__name__)
        raise AnalysisError("%s: unmodelled statement kind %s" % (self.fi.where(s), type(s).__name__))

    def _post_call(self, e, env: Env) -> Env:
        """out-parameters: a plain function that fills a container handed to it"""
        if not (isinstance(e, ast.Call) and isinstance(e.func, ast.Name)):
            return env
        for q in self.eng.call_targets.get((self.fi.qual, id(e)), ()):
            fi = self.eng.fn_by_qual.get(q)
            if fi is None or fi.cls is not None:
                continue
            for i, a in enumerate(e.args):
                if not isinstance(a, ast.Name) or i >= len(fi.params):
                    continue
                po = self.eng.pout.get((q, fi.params[i]))
                cur = env.get(a.id)
                if not po or not cur:
                    continue
                new = set()
                for t in cur:
                    if isinstance(t, tuple) and t[0] in ("set", "list"):
                        add = BOT
                        for u in po:
                            if u[0] == t[0]:
                                add = add | u[1]
                        new.add((t[0], t[1] | add))
                    else:
                        new.add(t)
                if FS(new) != cur:
                    env = env.copy()
                    self.assign(a, FS(new), env, None, weak=True)
        return env

    def _post_expr(self, e, env: Env) -> Env:
        """Container mutation through a method call statement: x.add(v) etc."""
        env = self._post_call(e, env)
        if isinstance(e, ast.Call) and isinstance(e.func, ast.Attribute) and e.func.attr in CONTAINER_MUT:
            recv = e.func.value
            rv = self.ev(recv, env)
            if not any(isinstance(t, tuple) and t[0] in SEQ_KINDS + ("dict",) for t in rv):
                return env
            add = BOT
            if e.func.attr in ("add", "append", "insert", "remove", "discard"):
                if e.args:
                    add = self.ev(e.args[-1], env)
            elif e.func.attr in ("extend", "update"):
                if e.args:
                    add = self.iter_elems(self.ev(e.args[0], env), e.args[0])
            else:
                return env
            new = set()
            for t in rv:
                if isinstance(t, tuple) and t[0] in SEQ_KINDS:
                    new.add((t[0], t[1] | add))
                else:
                    new.add(t)
            env = env.copy()
            self.assign(recv, FS(new), env, None, weak=True)
        return env

    def assign(self, t, v: FrozenSet, env: Env, value_node, weak=False):
        if isinstance(t, ast.Name):
            env.set(t.id, v)
            env.consts.pop(t.id, None)
            if value_node is not None:
                cv = self.const_eval(value_node, env)
                if cv is not None:
                    env.consts[t.id] = cv[0]
            self.record(t, v)
            return
        if isinstance(t, (ast.Tuple, ast.List)):
            n = len(t.elts)
            parts = [BOT] * n
            for tag in v:
                if isinstance(tag, tuple) and tag[0] == "ftuple" and len(tag[1]) == n:
                    for i in range(n):
                        parts[i] = parts[i] | tag[1][i]
                else:
                    el = elems_of_tag(tag)
                    if el is None:
                        el = self.iter_elems(S(tag), t)
                    for i in range(n):
                        parts[i] = parts[i] | el
            for i, x in enumerate(t.elts):
                if isinstance(x, ast.Starred):
                    self.assign(x.value, seq("list", parts[i]), env, None)
                else:
                    self.assign(x, parts[i], env, None)
            # u, v, flag = helper(a, b): a flag that is one constant in the context of this call
            if isinstance(value_node, ast.Call) and isinstance(value_node.func, ast.Name) and not value_node.keywords \
                    and not any(isinstance(a, ast.Starred) for a in value_node.args):
                tg = self.eng.call_targets.get((self.fi.qual, id(value_node)), set())
                if len(tg) == 1:
                    cal = self.eng.fn_by_qual.get(next(iter(tg)))
                    if cal is not None and cal.cls is None and not cal.is_generator:
                        args = tuple(self.ev(a, env) for a in value_node.args)
                        if all(len(a) == 1 for a in args):
                            sm = self.eng.summary(cal, args)
                            if sm is not None and -1 not in sm.ret_elem_consts:
                                for i, x in enumerate(t.elts):
                                    cs = sm.ret_elem_consts.get(i, set())
                                    if isinstance(x, ast.Name) and len(cs) == 1 and "?" not in cs:
                                        env.consts[x.id] = next(iter(cs))
            return
        if isinstance(t, ast.Attribute):
            base = self.ev(t.value, env)
            for tag in base:
                if self.eng.is_class_tag(tag):
                    self.eng.store_field(tag, t.attr, v)
            self.record(t, v)
            return
        if isinstance(t, ast.Subscript):
            base = self.ev(t.value, env)
            self.ev(t.slice, env)
            new = set()
            touched = False
            for tag in base:
                if isinstance(tag, tuple) and tag[0] in SEQ_KINDS:
                    new.add((tag[0], tag[1] | v))
                    touched = True
                elif isinstance(tag, tuple) and tag[0] == "dict":
                    new.add(("dict", tag[1] | self.ev(t.slice, env), tag[2] | v))
                    touched = True
                elif isinstance(tag, tuple) and tag[0] == "ftuple":
                    new.add(("tuple", (elems_of_tag(tag) or BOT) | v))
                    touched = True
                elif self.eng.is_class_tag(tag):
                    m = self.eng.class_by_name[tag].lookup("__setitem__")
                    if m is not None:
                        self.optarget(t, m)
                        self.eng.call_split(m, [S(tag), self.ev(t.slice, env), v])
                    new.add(tag)
                else:
                    new.add(tag)
            if touched:
                self.assign(t.value, FS(new), env, None, weak=True)
            return
        if isinstance(t, ast.Starred):
            self.assign(t.value, v, env, None)
            return
        raise AnalysisError("%s: unmodelled assignment target %s" % (self.fi.where(t), type(t).__name__))

    # -- iteration protocol
    def iter_elems(self, v: FrozenSet, node) -> FrozenSet:
        out = BOT
        for t in v:
            el = elems_of_tag(t)
            if el is not None:
                out |= el
            elif t == "str":
                out |= STR
            elif self.eng.is_class_tag(t):
                c = self.eng.class_by_name[t]
                m = c.lookup("__iter__")
                if m is not None:
                    r = self.eng.call(m, (S(t),))
                    out |= self.iter_elems(r, node)
                else:
                    g = c.lookup("__getitem__")
                    if g is not None:
                        self.optarget(node, g)
                        out |= self.eng.call(g, (S(t), NUM))
                    else:
                        self.anomaly(node, "iteration over non-iterable %s" % t)
            elif is_unknown(t) or t == "Ext":
                out |= S(t)
            elif t == "lambda":
                out |= unknown("iter of callable result")
            else:
                self.anomaly(node, "iteration over non-iterable %s" % (t,))
        return out

    # -- branch folding and narrowing
    def fold(self, test, env: Env) -> Optional[bool]:
        """Decide `len(<ftuple>) == k` style tests; None = unknown."""
        if isinstance(test, ast.Compare) and len(test.ops) == 1:
            l, r = test.left, test.comparators[0]
            if (isinstance(l, ast.Call) and isinstance(l.func, ast.Name) and l.func.id == "len" and len(l.args) == 1
                    and isinstance(r, ast.Constant) and isinstance(r.value, int)):
                v = self.ev(l.args[0], env)
                lens = set()
                for t in v:
                    if isinstance(t, tuple) and t[0] == "ftuple":
                        lens.add(len(t[1]))
                    else:
                        return None
                if not lens:
                    return None
                res = set()
                for n in lens:
                    op = test.ops[0]
                    if isinstance(op, ast.Eq):
                        res.add(n == r.value)
                    elif isinstance(op, ast.NotEq):
                        res.add(n != r.value)
                    elif isinstance(op, ast.Lt):
                        res.add(n < r.value)
                    elif isinstance(op, ast.LtE):
                        res.add(n <= r.value)
                    elif isinstance(op, ast.Gt):
                        res.add(n > r.value)
                    elif isinstance(op, ast.GtE):
                        res.add(n >= r.value)
                    else:
                        return None
                if len(res) == 1:
                    return res.pop()
        if isinstance(test, ast.Constant) and isinstance(test.value, bool):
            return test.value
        if isinstance(test, ast.Name) and isinstance(env.consts.get(test.id), bool):
            return env.consts[test.id]
        if isinstance(test, ast.UnaryOp) and isinstance(test.op, ast.Not):
            f = self.fold(test.operand, env)
            return None if f is None else (not f)
        if isinstance(test, ast.BoolOp):
            fs = [self.fold(v, env) for v in test.values]
            if isinstance(test.op, ast.Or):
                if any(f is True for f in fs):
                    return True
                if all(f is False for f in fs):
                    return False
            else:
                if any(f is False for f in fs):
                    return False
                if all(f is True for f in fs):
                    return True
            return None
        if isinstance(test, ast.Compare) and len(test.ops) == 1 and isinstance(test.ops[0], (ast.Is, ast.IsNot)) \
                and not any(isinstance(x, ast.Constant) for x in (test.left, test.comparators[0])):
            # `a is b` between values whose class tags are disjoint: never the same object
            ta, tb = self.ev(test.left, env), self.ev(test.comparators[0], env)
            if ta and tb and all(self.eng.is_class_tag(t) or t in ("num", "str", "bool", "None") for t in ta | tb) and not (ta & tb):
                return isinstance(test.ops[0], ast.IsNot)
        if isinstance(test, ast.Compare) and len(test.ops) == 1:
            a = self.const_eval(test.left, env)
            b = self.const_eval(test.comparators[0], env)
            if a is not None and b is not None:
                op = test.ops[0]
                try:
                    if isinstance(op, ast.Is):
                        return a[0] is b[0] if (a[0] is None or b[0] is None) else None
                    if isinstance(op, ast.IsNot):
                        return a[0] is not b[0] if (a[0] is None or b[0] is None) else None
                    if isinstance(op, ast.In) and isinstance(b[0], tuple):
                        return a[0] in b[0]
                    if isinstance(op, ast.NotIn) and isinstance(b[0], tuple):
                        return a[0] not in b[0]
                    if isinstance(op, ast.Eq):
                        return a[0] == b[0]
                    if isinstance(op, ast.NotEq):
                        return a[0] != b[0]
                    if isinstance(op, ast.Lt):
                        return a[0] < b[0]
                    if isinstance(op, ast.LtE):
                        return a[0] <= b[0]
                    if isinstance(op, ast.Gt):
                        return a[0] > b[0]
                    if isinstance(op, ast.GtE):
                        return a[0] >= b[0]
                except TypeError:
                    return None
        return None

    def const_eval(self, e, env: Env):
        """-> (value,) for a class-level constant read through a value whose
        type set is one class (e.g. other.class_level), or a literal."""
        if isinstance(e, ast.Constant) and isinstance(e.value, (int, float)):
            return (e.value,)  # (booleans included: a constant flag selects a branch)
        if isinstance(e, ast.Constant) and e.value is None:
            return (None,)
        if isinstance(e, ast.Name) and e.id in env.consts:
            return (env.consts[e.id],)
        if isinstance(e, ast.Call) and isinstance(e.func, ast.Name) and not e.keywords and e.func.id != "len" \
                and not any(isinstance(a, ast.Starred) for a in e.args):
            # a plain function that returns one known constant in the context of this call (e.g. a rank of the operand's type)
            tg = self.eng.call_targets.get((self.fi.qual, id(e)), set())
            if len(tg) == 1:
                cal = self.eng.fn_by_qual.get(next(iter(tg)))
                if cal is not None and cal.cls is None and not cal.is_generator:
                    args = tuple(self.ev(a, env) for a in e.args)
                    if all(len(a) == 1 for a in args):
                        sm = self.eng.summary(cal, args)
                        if sm is not None and not sm.ret_nonconst and len(sm.ret_consts) == 1 and not sm.raises:
                            return (next(iter(sm.ret_consts)),)
            return None
        if isinstance(e, ast.Call) and isinstance(e.func, ast.Name) and e.func.id == "len" and len(e.args) == 1 and not e.keywords:
            v = self.ev(e.args[0], env)
            lens = set()
            for t in v:
                if isinstance(t, tuple) and t[0] == "ftuple":
                    lens.add(len(t[1]))
                else:
                    return None
            if len(lens) == 1:
                return (lens.pop(),)
            return None
        if isinstance(e, (ast.Tuple, ast.List)):
            vals = [self.const_eval(x, env) for x in e.elts]
            if all(v is not None for v in vals):
                return (tuple(v[0] for v in vals),)
            return None
        if isinstance(e, ast.Attribute):
            base = self.ev(e.value, env)
            vals = set()
            for t in base:
                if not self.eng.is_class_tag(t):
                    return None
                if self.eng.field(t, e.attr) is not None:
                    return None
                ca = self.eng.class_by_name[t].class_attr(e.attr)
                if not (isinstance(ca, ast.Constant) and isinstance(ca.value, (int, float))):
                    return None
                vals.add(ca.value)
            if len(vals) == 1:
                return (vals.pop(),)
        return None

    def _isinstance_classes(self, node) -> Optional[List]:
        """resolve the second argument of isinstance -> list of class names / builtin names"""
        if isinstance(node, ast.Tuple):
            out = []
            for e in node.elts:
                r = self._isinstance_classes(e)
                if r is None:
                    return None
                out += r
            return out
        if isinstance(node, ast.Name):
            b = self.fi.resolve(node.id)
            if b is not None and b.kind == "class":
                return [b.target.name]
            if b is None and node.id in ("int", "float", "str", "list", "tuple", "set", "dict", "bool", "complex"):
                return ["builtin:" + node.id]
            if b is not None and b.kind == "ext":
                return ["ext:" + str(b.target)]
        return None

    def tag_isinstance(self, tag, clsnames) -> Optional[bool]:
        """True / False / None(unknown)"""
        res = False
        for cn in clsnames:
            if cn.startswith("builtin:"):
                b = cn[8:]
                if tag == "num" and b in ("int", "float", "complex", "bool"):
                    return None
                if tag == "bool" and b in ("int", "bool"):
                    return True
                if tag == "str" and b == "str":
                    return True
                if isinstance(tag, tuple) and tag[0] in ("list", "tuple", "set", "dict", "ftuple"):
                    k = "tuple" if tag[0] == "ftuple" else tag[0]
                    if k == b:
                        return True
                continue
            if cn.startswith("ext:"):
                if tag == "num" or tag == "Ext" or is_unknown(tag):
                    return None
                continue
            if self.eng.is_class_tag(tag):
                if self.eng.class_by_name[cn] in self.eng.class_by_name[tag].mro():
                    return True
            elif is_unknown(tag) or tag == "Ext":
                return None
        return res

    def narrow(self, test, env: Optional[Env], truth: bool) -> Optional[Env]:
        if env is None:
            return None
        if isinstance(test, ast.UnaryOp) and isinstance(test.op, ast.Not):
            return self.narrow(test.operand, env, not truth)
        if isinstance(test, ast.BoolOp):
            is_and = isinstance(test.op, ast.And)
            if is_and == truth:
                for v in test.values:
                    env = self.narrow(v, env, truth)
                    if env is None:
                        return None
                return env
            # disjunction of possibilities: (and-false) or (or-true)
            outs = None
            prefix = env
            for v in test.values:
                if prefix is None:
                    break
                outs = join_env(outs, self.narrow(v, prefix, truth))
                prefix = self.narrow(v, prefix, not truth)
            return outs
        if isinstance(test, ast.Compare) and len(test.ops) == 1 and isinstance(test.left, ast.Name):
            c = test.comparators[0]
            if isinstance(c, ast.Constant) and c.value is None and isinstance(test.ops[0], (ast.Is, ast.IsNot)):
                cur = env.get(test.left.id)
                if cur is None:
                    return env
                want_none = isinstance(test.ops[0], ast.Is) == truth
                new = FS(t for t in cur if (t == "None") == want_none or (is_unknown(t) or t == "Ext"))
                if not new:
                    return None
                e = env.copy()
                e.set(test.left.id, new)
                return e
        if (isinstance(test, ast.Call) and isinstance(test.func, ast.Name) and test.func.id == "isinstance"
                and len(test.args) == 2 and isinstance(test.args[0], ast.Name)):
            cls = self._isinstance_classes(test.args[1])
            cur = env.get(test.args[0].id)
            if cls is None or cur is None:
                return env
            keep = set()
            for t in cur:
                r = self.tag_isinstance(t, cls)
                if r is None or r == truth:
                    keep.add(t)
            if not keep:
                return None
            e = env.copy()
            e.set(test.args[0].id, FS(keep))
            return e
        f = self.fold(test, env)
        if f is not None and f != truth:
            return None
        return env

    # -- expressions
    def ev(self, e, env: Env, stmt_env=None) -> FrozenSet:
        v = self._ev(e, env)
        if self.eng.suppress and has_unknown(v):
            # values that exist only under a guessed arity are dropped
            v = FS(t for t in v if not is_unknown(t))
        self.record(e, v)
        return v

    def _ev(self, e, env: Env) -> FrozenSet:
        eng = self.eng
        if isinstance(e, ast.Constant):
            return eng._const_type(e) if not isinstance(e.value, (bytes, type(Ellipsis))) else unknown("const")
        if isinstance(e, ast.Name):
            v = env.get(e.id)
            if v is not None:
                return v
            b = self.fi.resolve(e.id)
            if b is None:
                if e.id in BUILTIN_EXC:
                    return S(("cls", e.id))
                if e.id in ("True", "False"):
                    return BOOL
                if hasattr(_builtins, e.id):
                    return S(("builtin", e.id))
                self.anomaly(e, "unresolved name %s" % e.id)
                return unknown("name " + e.id)
            if b.kind == "func":
                return S(("func", b.target.qual, b.bound_cls.name if b.bound_cls else None))
            if b.kind == "class":
                return S(("cls", b.target.name))
            if b.kind == "ext" and "." in str(b.target):
                # `from itertools import chain` / `from math import sqrt, pi`: the imported member, as if written module.member
                mod_, _, mem_ = str(b.target).rpartition(".")
                if mod_ == "math" and mem_ in ("pi", "e", "inf", "tau", "nan"):
                    return NUM
                return S(("extattr", str(b.target)))
            if b.kind in ("ext", "module"):
                return EXT
            if b.kind == "var":
                mod, name, vals = b.target
                out = BOT
                for vn in vals:
                    out |= self._module_value(mod, vn)
                return out
            return unknown("binding " + e.id)
        if isinstance(e, ast.Attribute):
            return self.attr(e, env)
        if isinstance(e, ast.Subscript):
            base = self.ev(e.value, env)
            idx = self.ev(e.slice, env) if not isinstance(e.slice, ast.Slice) else None
            if isinstance(e.slice, ast.Slice):
                for p in (e.slice.lower, e.slice.upper, e.slice.step):
                    if p is not None:
                        self.ev(p, env)
            out = BOT
            for t in base:
                if isinstance(t, tuple) and t[0] == "ftuple":
                    if isinstance(e.slice, ast.Slice):
                        out |= seq("tuple", elems_of_tag(t))
                    elif isinstance(e.slice, ast.Constant) and isinstance(e.slice.value, int) and -len(t[1]) <= e.slice.value < len(t[1]):
                        out |= t[1][e.slice.value]
                    else:
                        out |= elems_of_tag(t)
                elif isinstance(t, tuple) and t[0] in SEQ_KINDS:
                    out |= S(t) if isinstance(e.slice, ast.Slice) else t[1]
                elif isinstance(t, tuple) and t[0] == "dict":
                    out |= t[2]
                elif t == "str":
                    out |= STR
                elif eng.is_class_tag(t):
                    m = eng.class_by_name[t].lookup("__getitem__")
                    if m is None:
                        self.anomaly(e, "subscript on %s without __getitem__" % t)
                        out |= unknown("subscript " + t)
                    else:
                        self.optarget(e, m)
                        out |= eng.call_split(m, [S(t), idx if idx is not None else NUM])
                elif is_unknown(t) or t == "Ext":
                    out |= S(t)
                else:
                    self.anomaly(e, "subscript on %s" % (t,))
                    out |= unknown("subscript")
            return out
        if isinstance(e, ast.Call):
            return self.call_expr(e, env)
        if isinstance(e, ast.BinOp):
            l = self.ev(e.left, env)
            r = self.ev(e.right, env)
            return self.binop(type(e.op), l, r, e)
        if isinstance(e, ast.UnaryOp):
            v = self.ev(e.operand, env)
            if isinstance(e.op, ast.Not):
                return BOOL
            out = BOT
            for t in v:
                if eng.is_class_tag(t):
                    m = eng.class_by_name[t].lookup(UNOPS[type(e.op)])
                    if m is None:
                        self.anomaly(e, "unary op on %s" % t)
                        out |= unknown("unary")
                    else:
                        self.optarget(e, m)
                        out |= eng.call(m, (S(t),))
                elif t in ("num", "bool"):
                    out |= NUM
                else:
                    out |= S(t) if is_unknown(t) or t == "Ext" else unknown("unary on %s" % (t,))
            return out
        if isinstance(e, ast.BoolOp):
            out = BOT
            cur = env
            for v in e.values:
                if cur is None:
                    break
                out |= self.ev(v, cur)
                cur = self.narrow(v, cur, isinstance(e.op, ast.And))
            return out
        if isinstance(e, ast.Compare):
            return self.compare(e, env)
        if isinstance(e, ast.IfExp):
            self.ev(e.test, env)
            fz = self.fold(e.test, env)
            a = self.narrow(e.test, env, True) if fz is not False else None
            b = self.narrow(e.test, env, False) if fz is not True else None
            out = BOT
            if a is not None:
                self.sm.branches.add((id(e), True))
                out |= self.ev(e.body, a)
            if b is not None:
                self.sm.branches.add((id(e), False))
                out |= self.ev(e.orelse, b)
            return out
        if isinstance(e, ast.Tuple):
            if any(isinstance(x, ast.Starred) for x in e.elts):
                el = BOT
                for x in e.elts:
                    if isinstance(x, ast.Starred):
                        el |= self.iter_elems(self.ev(x.value, env), x)
                    else:
                        el |= self.ev(x, env)
                return seq("tuple", el)
            return S(("ftuple", tuple(self.ev(x, env) for x in e.elts)))
        if isinstance(e, (ast.List, ast.Set)):
            el = BOT
            for x in e.elts:
                if isinstance(x, ast.Starred):
                    el |= self.iter_elems(self.ev(x.value, env), x)
                else:
                    el |= self.ev(x, env)
            return seq("list" if isinstance(e, ast.List) else "set", el)
        if isinstance(e, ast.Dict):
            k = BOT
            v = BOT
            for a, b in zip(e.keys, e.values):
                if a is not None:
                    k |= self.ev(a, env)
                v |= self.ev(b, env)
            return S(("dict", k, v))
        if isinstance(e, (ast.ListComp, ast.SetComp, ast.GeneratorExp)):
            e2 = self.comp_env(e.generators, env)
            el = self.ev(e.elt, e2) if e2 is not None else BOT
            kind = {ast.ListComp: "list", ast.SetComp: "set", ast.GeneratorExp: "iter"}[type(e)]
            return seq(kind, el)
        if isinstance(e, ast.DictComp):
            e2 = self.comp_env(e.generators, env)
            if e2 is None:
                return S(("dict", BOT, BOT))
            return S(("dict", self.ev(e.key, e2), self.ev(e.value, e2)))
        if isinstance(e, ast.JoinedStr):
            for x in e.values:
                if isinstance(x, ast.FormattedValue):
                    self.ev(x.value, env)
            return STR
        if isinstance(e, ast.Lambda):
            return S("lambda")
        if isinstance(e, ast.Yield):
            v = self.ev(e.value, env) if e.value is not None else NONE
            self.yields = self.yields | v
            return NONE
        if isinstance(e, ast.Starred):
            return self.ev(e.value, env)
        if isinstance(e, ast.NamedExpr):
            v = self.ev(e.value, env)
            env.set(e.target.id, v)
            return v
        raise AnalysisError("%s: unmodelled expression kind %s" % (self.fi.where(e), type(e).__name__))

    def comp_env(self, gens, env: Env) -> Optional[Env]:
        e2 = env.copy()
        for g in gens:
            it = self.ev(g.iter, e2)
            el = self.iter_elems(it, g.iter)
            self.assign(g.target, el, e2, None)
            for c in g.ifs:
                self.ev(c, e2)
                e2 = self.narrow(c, e2, True)
                if e2 is None:
                    return None
        return e2

    def _module_value(self, mod, vn) -> FrozenSet:
        """type of a module-level variable initialiser (evaluated in module scope)"""
        if isinstance(vn, ast.Constant):
            return self.eng._const_type(vn)
        if isinstance(vn, ast.BinOp):
            return NUM
        if isinstance(vn, ast.Call):
            # a module-level constant computed by a function of the same module from literals / other constants
            # (FLOAT_EPS = _eps_for(SIG_FIGURES)): the result type of that function on the argument types
            if isinstance(vn.func, ast.Name) and not vn.keywords and vn.func.id in mod.functions:
                args = []
                for a in vn.args:
                    if isinstance(a, ast.Name) and a.id in mod.assigns and len(mod.assigns[a.id]) >= 1:
                        args.append(self._module_value(mod, mod.assigns[a.id][-1]))
                    else:
                        args.append(self._module_value(mod, a))
                if all(a and not any(isinstance(t, tuple) and t[0] == "Unknown" for t in a) for a in args):
                    return self.eng.call_split(mod.functions[vn.func.id], args)
            return EXT
        if isinstance(vn, (ast.Tuple, ast.List)):
            el = BOT
            for x in vn.elts:
                el |= self._module_value(mod, x)
            return seq("tuple" if isinstance(vn, ast.Tuple) else "list", el)
        if isinstance(vn, ast.Attribute):
            return EXT
        if isinstance(vn, ast.Name):
            return EXT
        return unknown("module value")

    def attr(self, e: ast.Attribute, env: Env) -> FrozenSet:
        eng = self.eng
        # module attribute: math.pi, copy.deepcopy ...
        if isinstance(e.value, ast.Name) and env.get(e.value.id) is None:
            b = self.fi.resolve(e.value.id)
            if b is not None and b.kind == "ext":
                if str(b.target) == "math" and e.attr in ("pi", "e", "inf", "tau", "nan"):
                    return NUM
                return S(("extattr", "%s.%s" % (b.target, e.attr)))
            if b is not None and b.kind == "module":
                bb = b.target.resolve(e.attr)
                if bb is not None and bb.kind == "func":
                    return S(("func", bb.target.qual, None))
                if bb is not None and bb.kind == "class":
                    return S(("cls", bb.target.name))
                return EXT
            if b is not None and b.kind == "class":
                c = b.target
                m = c.lookup(e.attr)
                if m is not None:
                    return S(("func", m.qual, c.name if m.is_classmethod else None))
                ca = c.class_attr(e.attr)
                if ca is not None:
                    return self._module_value(c.module, ca)
                self.anomaly(e, "class %s has no attribute %s" % (c.name, e.attr))
                return unknown("classattr %s.%s" % (c.name, e.attr))
        base = self.ev(e.value, env)
        out = BOT
        for t in base:
            if eng.is_class_tag(t):
                f = eng.field(t, e.attr)
                c = eng.class_by_name[t]
                if f is not None:
                    out |= f
                    continue
                m = c.lookup(e.attr)
                if m is not None and "property" in m.decorators:
                    # a read-only property: reading the attribute calls the getter on this object
                    self.eng.call_targets.setdefault((self.fi.qual, id(e)), set()).add(m.qual)
                    out |= eng.call(m, (S(t),))
                    continue
                if m is not None:
                    out |= S(("bound", m.qual, t))
                    continue
                ca = c.class_attr(e.attr)
                if ca is not None:
                    out |= self._module_value(c.module, ca)
                    continue
                if eng.final:
                    self.anomaly(e, "attribute .%s is not defined on %s" % (e.attr, t))
                    out |= unknown("attr %s.%s" % (t, e.attr))
            elif isinstance(t, tuple) and t[0] == "cls":
                c = eng.class_by_name.get(t[1])
                if c is not None and e.attr == "__new__":
                    out |= S(("newobj", c.name))
                    continue
                if c is not None:
                    m = c.lookup(e.attr)
                    if m is not None:
                        out |= S(("func", m.qual, c.name if m.is_classmethod else None))
                        continue
                    ca = c.class_attr(e.attr)
                    if ca is not None:
                        out |= self._module_value(c.module, ca)
                        continue
                out |= unknown("classattr")
            elif isinstance(t, tuple) and t[0] == "super":
                m = eng.class_by_name[t[1]].lookup(e.attr)
                if m is not None:
                    out |= S(("bound", m.qual, t[2]))
                else:
                    out |= unknown("super attr")
            elif t == "Ext" or is_unknown(t) or (isinstance(t, tuple) and t[0] == "extattr"):
                out |= EXT if not is_unknown(t) else S(t)
            elif isinstance(t, tuple) and t[0] in SEQ_KINDS + ("dict", "ftuple"):
                out |= S(("cmeth", e.attr, t))
            elif t == "str":
                out |= S(("cmeth", e.attr, "str"))
            elif t == "num" or t == "bool":
                if eng.final:
                    self.anomaly(e, "attribute .%s on a number" % e.attr)
                out |= unknown("attr on num")
            elif t == "None":
                if eng.final:
                    self.anomaly(e, "attribute .%s on None" % e.attr)
                out |= unknown("attr on None")
            else:
                if eng.final:
                    self.anomaly(e, "attribute .%s on %s" % (e.attr, (t,)))
                out |= unknown("attr on %s" % (t,))
        return out

    def binop(self, op, l: FrozenSet, r: FrozenSet, node) -> FrozenSet:
        eng = self.eng
        out = BOT
        d, rd = BINOPS[op]
        for a in l:
            for b in r:
                NI = ("builtin", "NotImplemented")
                if eng.is_class_tag(a) and eng.class_by_name[a].lookup(d) is not None:
                    self.optarget(node, eng.class_by_name[a].lookup(d))
                    r1 = eng.call(eng.class_by_name[a].lookup(d), (S(a), S(b)))
                    if NI in r1:
                        # the operator method declined: Python tries the reflected method of the other operand, else TypeError
                        r1 = r1 - {NI}
                        if eng.is_class_tag(b) and eng.class_by_name[b].lookup(rd) is not None:
                            self.optarget(node, eng.class_by_name[b].lookup(rd))
                            r1 |= eng.call(eng.class_by_name[b].lookup(rd), (S(b), S(a))) - {NI}
                    out |= r1
                elif eng.is_class_tag(b) and eng.class_by_name[b].lookup(rd) is not None:
                    self.optarget(node, eng.class_by_name[b].lookup(rd))
                    out |= eng.call(eng.class_by_name[b].lookup(rd), (S(b), S(a))) - {NI}
                elif a in ("num", "bool") and b in ("num", "bool"):
                    out |= NUM
                elif a == "str" and op is ast.Mod:
                    out |= STR
                elif a == "str" and b == "str" and op is ast.Add:
                    out |= STR
                elif a == "str" and b in ("num", "bool") and op is ast.Mult:
                    out |= STR
                elif isinstance(a, tuple) and a[0] in ("list", "tuple", "ftuple") and isinstance(b, tuple) and b[0] in ("list", "tuple", "ftuple") and op is ast.Add:
                    k = "list" if a[0] == "list" else "tuple"
                    out |= seq(k, (elems_of_tag(a) or BOT) | (elems_of_tag(b) or BOT))
                elif isinstance(a, tuple) and a[0] in ("list", "tuple", "ftuple") and b in ("num", "bool") and op is ast.Mult:
                    out |= seq("list" if a[0] == "list" else "tuple", elems_of_tag(a) or BOT)
                elif isinstance(a, tuple) and a[0] == "set" and isinstance(b, tuple) and b[0] == "set":
                    out |= seq("set", a[1] | b[1])
                elif is_unknown(a) or is_unknown(b) or a == "Ext" or b == "Ext":
                    out |= unknown("binop on unknown") if (is_unknown(a) or is_unknown(b)) else EXT
                elif a == "None" or b == "None":
                    self.anomaly(node, "arithmetic on None")
                else:
                    self.anomaly(node, "unsupported operand types %s %s %s" % ((a,), op.__name__, (b,)))
                    out |= unknown("binop %s" % op.__name__)
        return out

    def compare(self, e: ast.Compare, env: Env) -> FrozenSet:
        eng = self.eng
        left = self.ev(e.left, env)
        for op, cnode in zip(e.ops, e.comparators):
            right = self.ev(cnode, env)
            if isinstance(op, (ast.In, ast.NotIn)):
                k = (self.fi.qual, id(e))
                site = eng.in_sites.setdefault(k, set())
                for c in right:
                    for x in left:
                        site.add((c, x))
                        if eng.is_class_tag(c):
                            m = eng.class_by_name[c].lookup("__contains__")
                            if m is not None:
                                self.optarget(e, m)
                                eng.call(m, (S(c), S(x)))
                            else:
                                self.anomaly(e, "`in` on %s without __contains__" % c)
            elif isinstance(op, (ast.Eq, ast.NotEq, ast.Lt, ast.LtE, ast.Gt, ast.GtE)):
                name = {ast.Eq: "__eq__", ast.NotEq: "__ne__", ast.Lt: "__lt__", ast.LtE: "__le__",
                        ast.Gt: "__gt__", ast.GtE: "__ge__"}[type(op)]
                for a in left:
                    if eng.is_class_tag(a):
                        m = eng.class_by_name[a].lookup(name)
                        if m is None and name == "__ne__":
                            m = eng.class_by_name[a].lookup("__eq__")
                        if m is not None:
                            self.optarget(e, m)
                            for b in right:
                                eng.call(m, (S(a), S(b)))
                    elif isinstance(a, tuple) and a[0] == "bound" and isinstance(op, (ast.Eq, ast.NotEq)):
                        self.anomaly(e, "bound method %s compared with a value (never equal)" % a[1])
            left = right
        return BOOL

    def call_expr(self, e: ast.Call, env: Env) -> FrozenSet:
        eng = self.eng
        # evaluate arguments
        pos: List[FrozenSet] = []
        star_unknown = False
        for a in e.args:
            if isinstance(a, ast.Starred):
                sv = self.ev(a.value, env)
                exp = None
                for t in sv:
                    if isinstance(t, tuple) and t[0] == "ftuple" and (exp is None or len(exp) == len(t[1])):
                        if exp is None:
                            exp = list(t[1])
                        else:
                            exp = [x | y for x, y in zip(exp, t[1])]
                    else:
                        exp = None
                        break
                if exp is not None:
                    pos.extend(exp)
                else:
                    star_unknown = True
                    pos.append(("STAR", self.iter_elems(sv, a)))  # type: ignore
            else:
                pos.append(self.ev(a, env))
        kw = {}
        for k in e.keywords:
            if k.arg is None:
                self.ev(k.value, env)
                star_unknown = True
            else:
                kw[k.arg] = self.ev(k.value, env)
        fv = self.callee_value(e.func, env)
        out = BOT
        targets = eng.call_targets.setdefault((self.fi.qual, id(e)), set())
        for t in fv:
            out |= self.apply(t, pos, kw, e, env, star_unknown, targets)
        # kernel type fact (assumption A4): applies to the call wherever its value goes (a local or an argument)
        cn = e.func.id if isinstance(e.func, ast.Name) else (e.func.attr if isinstance(e.func, ast.Attribute) else None)
        kf = KERNEL_TYPE_FACTS.get((self.fi.short, cn))
        if kf is not None:
            self.eng.kernel_fact_uses.add((self.fi.short, cn))
            out = FS(x for x in out if x == kf[0])
        return out

    def callee_value(self, f, env: Env) -> FrozenSet:
        if isinstance(f, ast.Name) and env.get(f.id) is None:
            b = self.fi.resolve(f.id)
            if b is None:
                return S(("builtin", f.id))
        return self.ev(f, env)

    def _expand_star(self, pos, fi: Optional[FunctionInfo], skip_self: int) -> List[List[FrozenSet]]:
        """Replace ('STAR', elems) markers by plausible arities."""
        if not any(isinstance(p, tuple) and p and p[0] == "STAR" for p in pos):
            return [list(pos)]
        self._star_guess = True
        variants = []
        if fi is not None:
            need = len(fi.params) - skip_self
            fixed = sum(1 for p in pos if not (isinstance(p, tuple) and p and p[0] == "STAR"))
            counts = [max(0, need - fixed)] if not fi.vararg else list(range(0, 5))
        else:
            counts = [1, 2, 3]
        for n in counts:
            v = []
            for p in pos:
                if isinstance(p, tuple) and p and p[0] == "STAR":
                    v.extend([p[1]] * n)
                else:
                    v.append(p)
            variants.append(v)
        return variants

    def apply(self, t, pos, kw, e: ast.Call, env: Env, star_unknown, targets) -> FrozenSet:
        if any(isinstance(p, tuple) and p and p[0] == "STAR" for p in pos):
            # the arity of a starred homogeneous tuple is unknown: the guessed
            # contexts are explored for their effects on tables, but anomalies
            # found only under a guessed arity are not reported
            self.eng.suppress += 1
            try:
                return self._apply(t, pos, kw, e, env, star_unknown, targets)
            finally:
                self.eng.suppress -= 1
        return self._apply(t, pos, kw, e, env, star_unknown, targets)

    def _apply(self, t, pos, kw, e: ast.Call, env: Env, star_unknown, targets) -> FrozenSet:
        eng = self.eng
        if isinstance(t, tuple):
            kind = t[0]
            if kind == "func":
                fi = eng.fn_by_qual[t[1]]
                targets.add(fi.qual)
                pre = []
                if fi.is_classmethod:
                    pre = [S(("cls", t[2] or (fi.cls.name if fi.cls else "?")))]
                elif fi.cls is not None and t[2] is None:
                    pre = []  # unbound method called through the class: first arg is self
                out = BOT
                for v in self._expand_star(pos, fi, len(pre)):
                    out |= eng.call_split(fi, pre + v, kw)
                return out
            if kind == "bound":
                fi = eng.fn_by_qual[t[1]]
                targets.add(fi.qual)
                out = BOT
                recv = S(("cls", t[2])) if fi.is_classmethod else S(t[2])
                for v in self._expand_star(pos, fi, 1):
                    out |= eng.call_split(fi, [recv] + v, kw)
                return out
            if kind == "cls":
                name = t[1]
                if name in BUILTIN_EXC:
                    return EXC
                c = eng.class_by_name.get(name)
                if c is None:
                    return unknown("class " + name)
                init = c.lookup("__init__")
                if init is not None:
                    targets.add(init.qual)
                out = BOT
                for v in self._expand_star(pos, init, 1):
                    out |= eng.construct(c, v, kw)
                return out
            if kind == "newobj":
                return S(t[1])  # cls.__new__(cls): a bare instance, its fields are stored by the code that follows
            if kind == "builtin":
                return self.builtin(t[1], pos, kw, e, env)
            if kind == "extattr":
                return self.extcall(t[1], pos, kw, e)
            if kind == "cmeth":
                return self.container_method(t[1], t[2], pos, e, env)
            if kind == "Unknown":
                self._unresolved_callee(e)
                return S(t)
        if t == "lambda":
            self._unresolved_callee(e)
            return unknown("result of local callable")
        if t == "type":
            return NUM  # unify_types: result_type(i) -- a numeric type by its documentation
        if t == "Ext":
            if isinstance(e.func, ast.Subscript) or (isinstance(e.func, ast.Name) and self.fi.resolve(e.func.id) is None):
                self._unresolved_callee(e)  # a local variable / table entry of unknown provenance is called
            return EXT
        if eng.is_class_tag(t):
            m = eng.class_by_name[t].lookup("__call__")
            if m is not None:
                targets.add(m.qual)
                out = BOT
                for v in self._expand_star(pos, m, 1):
                    out |= eng.call_split(m, [S(t)] + v, kw)
                return out
        self.anomaly(e, "call of non-callable %s" % (t,))
        return unknown("call of %s" % (t,))

    def extcall(self, name, pos, kw, e) -> FrozenSet:
        if name == "copy.deepcopy" or name == "copy.copy":
            return pos[0] if pos and not (isinstance(pos[0], tuple)) else unknown("deepcopy")
        if name.startswith("math."):
            return NUM
        if name.startswith("operator."):
            opn = name.split(".", 1)[1]
            table = {"add": ast.Add, "sub": ast.Sub, "mul": ast.Mult, "truediv": ast.Div, "floordiv": ast.FloorDiv, "mod": ast.Mod,
                     "pow": ast.Pow, "matmul": ast.MatMult, "or_": ast.BitOr, "and_": ast.BitAnd, "xor": ast.BitXor}
            if opn in table and len(pos) == 2 and table[opn] in BINOPS:
                return self.binop(table[opn], pos[0], pos[1], e)
            if opn in ("neg", "pos", "abs") and len(pos) == 1:
                return pos[0] if pos[0] <= NUM else unknown("operator." + opn)
            if opn in ("eq", "ne", "lt", "le", "gt", "ge", "not_", "truth", "contains", "is_", "is_not"):
                return BOOL
            return unknown(name)
        if name == "itertools.chain":
            el = BOT
            for p in pos:
                if isinstance(p, tuple) and p and p[0] == "STAR":
                    el |= self.iter_elems(p[1], e)
                else:
                    el |= self.iter_elems(p, e)
            return seq("iter", el)
        return EXT

    def container_method(self, meth, ctag, pos, e, env) -> FrozenSet:
        el = elems_of_tag(ctag) if isinstance(ctag, tuple) else None
        args = [p for p in pos if not (isinstance(p, tuple) and p and p[0] == "STAR")]
        if ctag == "str":
            if meth in ("format", "upper", "lower", "strip", "join", "replace", "title"):
                return STR
            if meth in ("split",):
                return seq("list", STR)
            if meth in ("startswith", "endswith"):
                return BOOL
            return unknown("str." + meth)
        if ctag == "num":
            return NUM
        if meth == "union" or meth == "intersection" or meth == "difference":
            o = BOT
            for a in args:
                o |= self.iter_elems(a, e)
            return seq("set", (el or BOT) | (o if meth == "union" else BOT))
        if meth == "copy":
            return S(ctag)
        if meth in ("index", "count"):
            return NUM
        if meth == "pop":
            if isinstance(ctag, tuple) and ctag[0] == "dict":
                return ctag[2]
            return el or BOT
        if meth in ("add", "append", "extend", "update", "insert", "remove", "discard", "clear", "sort", "reverse"):
            return NONE
        if isinstance(ctag, tuple) and ctag[0] == "dict":
            if meth == "items":
                return seq("iter", S(("ftuple", (ctag[1], ctag[2]))))
            if meth == "keys":
                return seq("iter", ctag[1])
            if meth == "values":
                return seq("iter", ctag[2])
            if meth == "get":
                return ctag[2] | NONE
        return unknown("method %s on container" % meth)

    def builtin(self, name, pos, kw, e, env) -> FrozenSet:
        args = [p if not (isinstance(p, tuple) and p and p[0] == "STAR") else seq("tuple", p[1]) for p in pos]
        if name in NUM_BUILTINS:
            if name == "abs" and args:
                out = BOT
                for t in args[0]:
                    if self.eng.is_class_tag(t):
                        m = self.eng.class_by_name[t].lookup("__abs__")
                        if m is not None:
                            self.optarget(e, m)
                        out |= self.eng.call(m, (S(t),)) if m is not None else unknown("abs")
                    else:
                        out |= NUM
                return out
            if name == "hash" and args:
                for t in args[0]:
                    if self.eng.is_class_tag(t):
                        m = self.eng.class_by_name[t].lookup("__hash__")
                        if m is not None:
                            self.optarget(e, m)
                            self.eng.call(m, (S(t),))
            if name == "len" and args:
                for t in args[0]:
                    if not (isinstance(t, tuple) and t[0] in SEQ_KINDS + ("dict", "ftuple")) and t != "str" and not is_unknown(t) and t != "Ext":
                        if self.eng.is_class_tag(t) and self.eng.class_by_name[t].lookup("__len__"):
                            continue
                        self.anomaly(e, "len() of %s" % (t,))
            return NUM
        if name in ("isinstance", "issubclass", "callable", "hasattr", "all", "any", "bool"):
            return BOOL
        if name in ("str", "repr", "format", "chr"):
            return STR
        if name == "type":
            return S("type")
        if name in ("list", "tuple", "set", "sorted", "frozenset", "reversed", "iter"):
            kind = {"sorted": "list", "frozenset": "set", "reversed": "iter"}.get(name, name)
            if not args:
                return seq(kind, BOT)
            return seq(kind, self.iter_elems(args[0], e))
        if name == "dict":
            return S(("dict", BOT, BOT))
        if name == "range":
            return seq("iter", NUM)
        if name == "enumerate":
            return seq("iter", S(("ftuple", (NUM, self.iter_elems(args[0], e)))))
        if name == "zip":
            if any(isinstance(p, tuple) and p and p[0] == "STAR" for p in pos):
                # zip(*rows): the transposition -- tuples of unknown length whose items are the items of the rows
                el = BOT
                for p in pos:
                    el |= self.iter_elems(p[1] if (isinstance(p, tuple) and p and p[0] == "STAR") else p, e)
                return seq("iter", seq("tuple", el))
            return seq("iter", S(("ftuple", tuple(self.iter_elems(a, e) for a in args))))
        if name == "map":
            return seq("iter", unknown("map result"))
        if name == "filter":
            return seq("iter", self.iter_elems(args[1], e)) if len(args) > 1 else seq("iter", BOT)
        if name in ("min", "max"):
            if len(args) == 1:
                return self.iter_elems(args[0], e)
            out = BOT
            for a in args:
                out |= a
            return out
        if name == "next":
            if args:
                out = self.iter_elems(args[0], e)
                for a in args[1:]:
                    out |= a  # the default
                return out
            return unknown("builtin next")
        if name == "sum":
            if args:
                el = self.iter_elems(args[0], e)
                return el if el else NUM
            return NUM
        if name == "print":
            return NONE
        if name == "super":
            # super(Class, self) / super(): proxy of the first base
            c = self.fi.cls
            if c is not None and c.bases():
                return S(("super", c.bases()[0].name, c.name))
            return EXT
        if name == "setattr":
            if len(args) == 3:
                for t in args[0]:
                    if self.eng.is_class_tag(t):
                        a1 = e.args[1]
                        if isinstance(a1, ast.Name):
                            from .astutil import single_defs
                            a1 = single_defs(self.fi.node, self.fi.params).get(a1.id, a1)
                        names = None
                        if isinstance(a1, ast.Constant) and isinstance(a1.value, str):
                            names = [a1.value]
                        elif isinstance(a1, ast.Subscript) and isinstance(a1.value, ast.Constant) and isinstance(a1.value.value, str):
                            names = list(a1.value.value)
                        if names is None:
                            raise AnalysisError("%s: setattr with a non-constant attribute name" % self.fi.where(e))
                        for n in names:
                            self.eng.store_field(t, n, args[2])
            return NONE
        if name in BUILTIN_EXC:
            return EXC
        if name in ("float", "int"):
            return NUM
        self.anomaly(e, "unmodelled builtin %s" % name)
        return unknown("builtin " + name)
