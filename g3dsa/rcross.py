"""R-CROSS / R-ACOS: partial-operation obligations on vector code.

R-CROSS  every normalised cross product  X.cross(Y).normalized()  (directly,
         through a local, or unit()) carries the obligation "X is not parallel
         to Y"; it is discharged only by
   (i)   a guard implying non-parallelism of the same operands on every path:
         false edge of X.parallel(Y), or of a folded-angle test;
   (ii)  a *two-sided* raw angle test (theta >= c and theta <= pi - c);
   (iii) the structural sub-rule "cross of a normalised cross product with one
         of its own factors";
   (iv)  the axis sub-rule: X within c < pi/4 of +-e_i and Y = e_j, j != i.
   A one-sided raw test  X.angle(Y) < c  (false edge) is NOT sufficient: it
   admits the anti-parallel case.
R-ACOS   the argument of every math.acos / math.asin is clamped to [-1, 1].
"""
from __future__ import annotations

import ast
import copy
import math
from typing import Dict, List, Optional, Set, Tuple

from .astutil import assigned_names, const_num, expand_locals, single_defs, txt
from .model import AnalysisError, FunctionInfo, walk_local

AXES = {"x_unit_vector": 0, "y_unit_vector": 1, "z_unit_vector": 2}


def _strip_norm(e: ast.AST) -> ast.AST:
    while isinstance(e, ast.Call) and isinstance(e.func, ast.Attribute) and e.func.attr in ("normalized", "unit") and not e.args:
        e = e.func.value
    return e


class VecCtx:
    def __init__(self, ctx, fi: FunctionInfo):
        self.ctx = ctx
        self.fi = fi
        self.g = ctx.cfg(fi)
        self.asg = assigned_names(fi.node)
        self.sdefs = single_defs(fi.node, fi.params)

    def expand(self, e: ast.AST) -> ast.AST:
        """single-definition locals replaced by their defining expressions (a fresh tree)"""
        return expand_locals(self.fi.node, e, self.fi.params, defs=self.sdefs)

    def const(self, e: ast.AST) -> Optional[float]:
        v = const_num(e)
        if v is not None:
            return v
        if isinstance(e, ast.Name):
            b = self.fi.resolve(e.id)
            if e.id in self.asg or e.id in self.fi.params:
                defs = self.asg.get(e.id, [])
                if len(defs) == 1 and isinstance(defs[0], ast.Assign) and e.id not in self.fi.params:
                    return self.const(defs[0].value)
                return None
            if b is not None and b.kind == "var":
                vals = b.target[2]
                if len(vals) == 1:
                    return const_num(vals[0])
            if b is not None and b.kind == "ext" and str(b.target) == "math.pi":
                return math.pi
        if isinstance(e, ast.BinOp):
            a, b2 = self.const(e.left), self.const(e.right)
            if a is None or b2 is None:
                return None
            try:
                return {ast.Add: a + b2, ast.Sub: a - b2, ast.Mult: a * b2, ast.Div: a / b2 if b2 else None}.get(type(e.op))
            except Exception:
                return None
        return None

    def axis_of(self, e: ast.AST) -> Optional[int]:
        e = _strip_norm(e)
        if isinstance(e, ast.Call) and not e.args:
            name = e.func.id if isinstance(e.func, ast.Name) else (e.func.attr if isinstance(e.func, ast.Attribute) else None)
            if name in AXES:
                tg = self.ctx.types.call_targets.get((self.fi.qual, id(e)), set())
                if not tg or all(q.endswith("Vector." + name) for q in tg):
                    return AXES[name]
        return None

    def canon(self, e: ast.AST) -> str:
        e = _strip_norm(self.expand(e))
        a = self.axis_of(e)
        if a is not None:
            return "axis%d" % a
        return txt(e)

    def defs_of(self, e: ast.AST) -> List[Tuple[ast.AST, Optional[ast.AST]]]:
        """reaching definitions of an expression that is a local name: [(value expr, def stmt)]"""
        e = _strip_norm(e)
        if isinstance(e, ast.Name) and e.id in self.sdefs:
            x = _strip_norm(self.expand(e))
            if isinstance(x, ast.Name) and x.id in self.asg and x.id not in self.fi.params and x.id not in self.sdefs:
                return self.defs_of(x)  # a single-definition alias of a local with several definitions (one per branch)
            return [(self.expand(e), self.asg[e.id][0])]
        if isinstance(e, ast.Name) and e.id in self.asg and e.id not in self.fi.params:
            out = []
            for d in self.asg[e.id]:
                if isinstance(d, ast.Assign) and len(d.targets) == 1 and isinstance(d.targets[0], ast.Name):
                    out.append((d.value, d))
                else:
                    return [(e, None)]
            return out
        return [(e, None)]

    # ---- angle facts on CFG edges
    def _angle_operands(self, e: ast.AST):
        """e is  U.angle(V)  /  acute(U.angle(V))  / a local holding one  ->  (U, V, folded)"""
        folded = False
        if isinstance(e, ast.Name) and e.id in self.asg and e.id not in self.fi.params:
            defs = self.asg[e.id]
            if len(defs) == 1 and isinstance(defs[0], ast.Assign):
                e = defs[0].value
        if isinstance(e, ast.Call) and isinstance(e.func, ast.Name) and e.func.id == "acute" and len(e.args) == 1:
            folded = True
            e = e.args[0]
        elif isinstance(e, ast.Call) and isinstance(e.func, ast.Name) and e.func.id == "min" and len(e.args) == 2:
            # min(theta, pi - theta): the angle folded at pi/2, written out
            a0, a1 = self.expand(e.args[0]), self.expand(e.args[1])
            for t, c in ((a0, a1), (a1, a0)):
                if isinstance(c, ast.BinOp) and isinstance(c.op, ast.Sub) and self.const(c.left) is not None \
                        and abs(self.const(c.left) - math.pi) < 1e-12 and txt(c.right) == txt(t):
                    folded = True
                    e = t
        if isinstance(e, ast.Call) and isinstance(e.func, ast.Attribute) and e.func.attr == "angle" and len(e.args) == 1:
            return e.func.value, e.args[0], folded
        if isinstance(e, ast.Call) and isinstance(e.func, ast.Name) and e.func.id == "angle" and len(e.args) == 2:
            return e.args[0], e.args[1], True  # calc.angle is folded
        return None

    def _parallel_pair(self, e: ast.AST) -> Optional[frozenset]:
        """the pair of direction expressions whose parallelism `e` tests:  X.parallel(Y)  or a call of a two-parameter
        module function that, for the argument types at this call, returns  P.parallel(Q)  of its parameters
        (calc.angle.parallel on two Lines / two Planes / two Vectors)"""
        if isinstance(e, ast.Call) and isinstance(e.func, ast.Attribute) and e.func.attr == "parallel" and len(e.args) == 1:
            return frozenset([self.canon(e.func.value), self.canon(e.args[0])])
        if not (isinstance(e, ast.Call) and isinstance(e.func, ast.Name) and len(e.args) == 2 and not e.keywords):
            return None
        b = self.fi.resolve(e.func.id)
        if b is None or b.kind != "func" or len(b.target.params) != 2 or b.target.cls is not None:
            return None
        h = b.target
        eng = self.ctx.types
        ts = tuple(eng.types_at(self.fi, a) for a in e.args)
        if any(len(t) != 1 for t in ts):
            return None
        try:
            sm = eng.summary(h, ts)
        except Exception:
            return None
        if sm is None:
            return None
        rets = [r for r in walk_local(h.node) if isinstance(r, ast.Return) and id(r) in sm.reached]
        if len(rets) != 1 or rets[0].value is None:
            return None
        v = rets[0].value
        if not (isinstance(v, ast.Call) and isinstance(v.func, ast.Attribute) and v.func.attr == "parallel" and len(v.args) == 1):
            return None
        sub = dict(zip(h.params, e.args))

        class Sub(ast.NodeTransformer):
            bad = False

            def visit_Name(self_, n):
                if n.id in sub:
                    return copy.deepcopy(sub[n.id])
                Sub.bad = True
                return n
        Sub.bad = False
        u = Sub().visit(copy.deepcopy(v.func.value))
        w = Sub().visit(copy.deepcopy(v.args[0]))
        if Sub.bad:
            return None
        return frozenset([self.canon(u), self.canon(w)])

    def edge_facts(self):
        """[(edge, pair(frozenset of canon), kind, c)]  kind in nonpar | lower | upper | near_axis_pair"""
        out = []
        for n in self.g.conds():
            e = n.ast
            # X.parallel(Y) / parallel(X, Y)
            pp = self._parallel_pair(e)
            if pp is not None:
                for y, l in self.g.succ[n.id]:
                    if l == "F":
                        out.append(((n.id, y, l), pp, "nonpar", 0.0))
                continue
            if not (isinstance(e, ast.Compare) and len(e.ops) == 1):
                continue
            left, right, op = e.left, e.comparators[0], type(e.ops[0])
            ao = self._angle_operands(left)
            c = self.const(right)
            if ao is None:
                ao = self._angle_operands(right)
                c = self.const(left)
                op = {ast.Lt: ast.Gt, ast.LtE: ast.GtE, ast.Gt: ast.Lt, ast.GtE: ast.LtE}.get(op, op)
            if ao is None or c is None or op not in (ast.Lt, ast.LtE, ast.Gt, ast.GtE):
                continue
            U, V, folded = ao
            pair = frozenset([self.canon(U), self.canon(V)])
            for y, l in self.g.succ[n.id]:
                less = (op in (ast.Lt, ast.LtE)) == (l == "T")  # on this edge theta (or its fold) is below c
                if folded:
                    if less:
                        if c < math.pi / 4:
                            out.append(((n.id, y, l), pair, "near", c))
                    else:
                        if c > 0:
                            out.append(((n.id, y, l), pair, "nonpar", c))
                else:
                    if less:
                        # theta <= c
                        if c < math.pi / 4:
                            out.append(((n.id, y, l), pair, "near", c))
                        if c < math.pi:
                            out.append(((n.id, y, l), pair, "upper", c))
                    else:
                        # theta >= c
                        if c > 3 * math.pi / 4:
                            out.append(((n.id, y, l), pair, "near", math.pi - c))
                        if c > 0:
                            out.append(((n.id, y, l), pair, "lower", c))
        return out

    def holds(self, node_id: int, pair: frozenset, kind: str, facts=None) -> Tuple[bool, List]:
        facts = facts if facts is not None else self.edge_facts()
        if kind == "nonpar":
            e1 = {f[0] for f in facts if f[1] == pair and f[2] == "nonpar"}
            if e1 and node_id not in self.g.reach([self.g.entry], avoid_edges=e1):
                return True, sorted(e1)
            lo = {f[0] for f in facts if f[1] == pair and f[2] in ("lower", "nonpar")}
            up = {f[0] for f in facts if f[1] == pair and f[2] in ("upper", "nonpar")}
            if lo and up and node_id not in self.g.reach([self.g.entry], avoid_edges=lo) \
                    and node_id not in self.g.reach([self.g.entry], avoid_edges=up):
                return True, sorted(lo | up)
            return False, sorted(lo | up)
        if kind == "near":
            e1 = {f[0] for f in facts if f[1] == pair and f[2] == "near"}
            if e1 and node_id not in self.g.reach([self.g.entry], avoid_edges=e1):
                return True, sorted(e1)
            return False, sorted(e1)
        raise ValueError(kind)


# Sites where raising on a degenerate cross product *is* the specified behaviour.
CROSS_BY_DESIGN = {
    "Plane.__init__": "Plane(P, P, P) from collinear points / Plane(P, v, w) with dependent vectors must be rejected (C15); "
                      "the zero cross product makes normalized() raise",
}


def cross_sites(ctx, fi: FunctionInfo):
    """[(normalized-call node, X expr, Y expr, stmt)] for normalised cross products in fi"""
    vc = VecCtx(ctx, fi)
    out = []
    par: Dict[int, ast.AST] = {}
    for n in ast.walk(fi.node):
        for ch in ast.iter_child_nodes(n):
            par[id(ch)] = n
    for n in walk_local(fi.node):
        if not (isinstance(n, ast.Call) and isinstance(n.func, ast.Attribute) and n.func.attr in ("normalized", "unit") and not n.args):
            continue
        recv = n.func.value
        for val, d in vc.defs_of(recv) if isinstance(recv, ast.Name) else [(recv, None)]:
            v = val
            if isinstance(v, ast.Call) and isinstance(v.func, ast.Attribute) and v.func.attr == "cross" and len(v.args) == 1:
                stmt = n
                while id(stmt) in par and not isinstance(stmt, ast.stmt):
                    stmt = par[id(stmt)]
                out.append((n, v.func.value, v.args[0], stmt))
    return out, vc


def count_cross_calls(repo) -> int:
    k = 0
    for fi in repo.functions(include_visualization=False):
        for n in walk_local(fi.node):
            if isinstance(n, ast.Call) and isinstance(n.func, ast.Attribute) and n.func.attr == "cross" and len(n.args) == 1:
                k += 1
    return k


def module_closure(ctx, fi: FunctionInfo) -> List[FunctionInfo]:
    """fi and the module-level functions of fi's own module it reaches through resolved calls (its private helpers)"""
    eng = ctx.types
    by_qual = {f.qual: f for f in ctx.repo.functions(include_visualization=False)}
    out, todo = [fi], [fi]
    while todo:
        f = todo.pop()
        for n in walk_local(f.node):
            if not isinstance(n, ast.Call):
                continue
            for q in sorted(eng.call_targets.get((f.qual, id(n)), ())):
                h = by_qual.get(q)
                if h is not None and h.cls is None and h.module is fi.module and h not in out:
                    out.append(h)
                    todo.append(h)
    return out


def check_cross(ctx, res, fi: FunctionInfo, rule: str) -> int:
    """report the R-CROSS obligations of one function; returns their number"""
    sites, vc = cross_sites(ctx, fi)
    facts = vc.edge_facts()
    g = vc.g
    n_ob = 0
    for call, X, Y, stmt in sites:
        use_nodes = g.nodes_of(stmt)
        if not use_nodes:
            raise AnalysisError("%s: statement of the cross product not in CFG" % fi.where(call))
        use = use_nodes[0]
        xdefs = vc.defs_of(X)
        ydefs = vc.defs_of(Y)
        # an operand chosen by a helper of the module (`reference = _reference_axis(normal)`): one case per return of the
        # helper, discharged with the angle facts that hold at that return (in the helper's own CFG)
        handled = False
        for (A, B) in ((X, Y), (Y, X)):
            be = vc.expand(B)
            if not (isinstance(be, ast.Call) and isinstance(be.func, ast.Name) and len(be.args) == 1 and not be.keywords):
                continue
            hb = fi.resolve(be.func.id)
            if hb is None or hb.kind != "func" or hb.target.module is not fi.module or len(hb.target.params) != 1:
                continue
            h = hb.target
            if vc.canon(be.args[0]) != vc.canon(A):
                continue  # the helper must be choosing the axis for THIS other operand
            hv = VecCtx(ctx, h)
            hfacts = hv.edge_facts()
            pname = h.params[0]
            for r in [x_ for x_ in walk_local(h.node) if isinstance(x_, ast.Return) and x_.value is not None]:
                n_ob += 1
                rn = hv.g.nodes_of(r)
                j = hv.axis_of(r.value)
                done = None
                if rn:
                    ok_, edges_ = hv.holds(rn[0], frozenset([pname, hv.canon(r.value)]), "nonpar", hfacts)
                    if ok_:
                        done = "%s returns `%s` only where it is not parallel to its argument: %s" % (
                            h.short, txt(r.value)[:30], "; ".join(hv.g.describe_edge(e_) for e_ in edges_[:2]))
                    elif j is not None:
                        for i in range(3):
                            if i == j:
                                continue
                            ok_, edges_ = hv.holds(rn[0], frozenset([pname, "axis%d" % i]), "near", hfacts)
                            if ok_:
                                done = "%s returns e%d only where its argument is within pi/4 of +-e%d (%s)" % (
                                    h.short, j, i, "; ".join(hv.g.describe_edge(e_) for e_ in edges_[:2]))
                                break
                label = "%s: %s x %s(...) -> %s normalised" % (fi.short, vc.canon(A), h.short, txt(r.value)[:30])
                res.ob(rule, h.where(r), label, done is not None, done or "no guard excludes parallel AND anti-parallel operands")
                if done is None:
                    res.violation(rule, h, r,
                                  "%s hands `%s` to the normalised cross product with `%s` in %s, but nothing on the way to this return "
                                  "excludes that the two are parallel or anti-parallel: a zero cross product makes normalized() divide by zero"
                                  % (h.short, txt(r.value)[:40], vc.canon(A), fi.short),
                                  construct="%s: cross(%s, %s -> %s).normalized()" % (fi.short, vc.canon(A), h.short, txt(r.value)[:30]),
                                  detail={"rule": "R-CROSS through a helper that chooses the reference axis"})
            handled = True
            break
        if handled:
            continue
        for xv, xd in xdefs:
            for yv, yd in ydefs:
                n_ob += 1
                cx, cy = vc.canon(xv), vc.canon(yv)
                pair = frozenset([cx, cy])
                pts = [use] + [g.nodes_of(d)[0] for d in (xd, yd) if d is not None and g.nodes_of(d)]
                label = "%s: %s x %s normalised" % (fi.short, cx, cy)
                where = fi.where(call)
                done = None
                # (i)/(ii) non-parallel guard
                tried = []
                for p in pts:
                    ok, edges = vc.holds(p, pair, "nonpar", facts)
                    if ok:
                        done = "non-parallelism guard on every path: " + "; ".join(g.describe_edge(e) for e in edges[:3])
                        break
                    tried += edges
                # (iii) cross of a normalised cross product with one of its own factors
                if done is None:
                    for a, b in ((vc.expand(xv), yv), (vc.expand(yv), xv)):
                        a0 = _strip_norm(a)
                        if isinstance(a0, ast.Call) and isinstance(a0.func, ast.Attribute) and a0.func.attr == "cross" \
                                and a0 is not a and len(a0.args) == 1:
                            factors = {vc.canon(a0.func.value), vc.canon(a0.args[0])}
                            if vc.canon(b) in factors:
                                # the inner cross product must itself be non-degenerate: it is one of the sites
                                done = "cross of the normalised cross product `%s` with its own factor `%s` (orthogonal, non-zero)" % (
                                    txt(a0)[:40], vc.canon(b))
                # (iv) axis sub-rule
                if done is None:
                    for a, b in ((xv, yv), (yv, xv)):
                        j = vc.axis_of(b)
                        if j is None:
                            continue
                        for i in range(3):
                            if i == j:
                                continue
                            for p in pts:
                                ok, edges = vc.holds(p, frozenset([vc.canon(a), "axis%d" % i]), "near", facts)
                                if ok:
                                    done = "%s is within pi/4 of +-e%d on every path (%s) and the other factor is e%d" % (
                                        vc.canon(a), i, "; ".join(g.describe_edge(e) for e in edges[:2]), j)
                                    break
                            if done:
                                break
                        if done:
                            break
                if done is None and fi.short in CROSS_BY_DESIGN:
                    done = "by design: " + CROSS_BY_DESIGN[fi.short]
                res.ob(rule, where, label, done is not None, done or "no guard excludes parallel AND anti-parallel operands")
                if done is None:
                    onesided = [f for f in facts if f[1] == pair and f[2] in ("lower", "upper")]
                    res.violation(
                        rule, fi, call,
                        "normalised cross product of `%s` and `%s` with no guard that excludes parallel and anti-parallel "
                        "operands: a zero cross product makes normalized() divide by zero%s" % (
                            cx, cy, " (only a one-sided angle test is present: %s)" % "; ".join(
                                g.describe_edge(f[0]) for f in onesided[:2]) if onesided else ""),
                        construct="%s: cross(%s, %s).normalized()" % (fi.short, cx, cy),
                        detail={"rule": "R-CROSS", "accepted discharges": "parallel() false edge; folded or two-sided angle test; "
                                "own-factor sub-rule; axis sub-rule"})
    return n_ob


# ------------------------------------------------------------------ R-ACOS
def _is_clamped(e: ast.AST) -> bool:
    """max(-1, min(1, x)) / min(1, max(-1, x)) (constants may be floats)"""
    def mm(e, outer, inner, oc, ic):
        if isinstance(e, ast.Call) and isinstance(e.func, ast.Name) and e.func.id == outer and len(e.args) == 2:
            for a, b in (e.args, e.args[::-1]):
                if const_num(a) is not None and abs(const_num(a) - oc) < 1e-12 and isinstance(b, ast.Call) \
                        and isinstance(b.func, ast.Name) and b.func.id == inner and len(b.args) == 2:
                    if any(const_num(z) is not None and abs(const_num(z) - ic) < 1e-12 for z in b.args):
                        return True
        return False
    return mm(e, "max", "min", -1, 1) or mm(e, "min", "max", 1, -1)


def _range_safe(ctx, fi: FunctionInfo, arg: ast.AST, depth: int = 0) -> bool:
    """the value is clamped into [-1, 1]: a max(-1, min(1, x)) form, a local all of whose definitions are, or the result
    of a package function every return of which is (a `_cosine(u, v)` helper that clamps before it returns)"""
    if _is_clamped(arg):
        return True
    if isinstance(arg, ast.Name) and arg.id not in fi.params:
        defs = assigned_names(fi.node).get(arg.id, [])
        return bool(defs) and all(isinstance(d, ast.Assign) and len(d.targets) == 1 and _range_safe(ctx, fi, d.value, depth) for d in defs)
    if isinstance(arg, ast.Call) and depth < 3:
        tg = ctx.types.call_targets.get((fi.qual, id(arg)), set())
        if not tg:
            return False
        for q in tg:
            h = ctx.types.fn_by_qual.get(q)
            if h is None:
                return False
            rets = [r for r in walk_local(h.node) if isinstance(r, ast.Return)]
            if not rets or not all(r.value is not None and _range_safe(ctx, h, r.value, depth + 1) for r in rets):
                return False
        return True
    return False


def check_acos(ctx, res, fi: FunctionInfo, rule: str) -> int:
    n = 0
    asg = assigned_names(fi.node)
    for c in walk_local(fi.node):
        if isinstance(c, ast.Call) and len(c.args) == 2 and txt(c.func) in ("math.atan2", "atan2"):
            n += 1
            res.ob(rule, fi.where(c), "%s: atan2(...)" % fi.short, True, "two-argument arctangent is total (defined for every pair but (0, 0))")
            continue
        if not (isinstance(c, ast.Call) and len(c.args) == 1):
            continue
        name = txt(c.func)
        if name in ("math.atan", "atan"):
            # atan is total, but a quotient inside it is not: a denominator built from a SUM or DIFFERENCE of the operand
            # vectors vanishes for (anti-)parallel operands -- the two-argument atan2(y, x) is the total form
            n += 1
            arg = expand_locals(fi.node, c.args[0], fi.params)
            bad = None
            for d in ast.walk(arg):
                if isinstance(d, ast.BinOp) and isinstance(d.op, ast.Div):
                    for x in ast.walk(d.right):
                        if isinstance(x, ast.BinOp) and isinstance(x.op, (ast.Add, ast.Sub)) and not (
                                const_num(x.left) is not None or const_num(x.right) is not None):
                            bad = (d, x)
            ok = bad is None
            res.ob(rule, fi.where(c), "%s: %s(...)" % (fi.short, name), ok,
                   "no quotient whose denominator is a sum / difference of the operands" if ok else
                   "denominator `%s` vanishes when `%s` cancels" % (txt(bad[0].right)[:40], txt(bad[1])[:30]))
            if not ok:
                res.violation(rule, fi, c,
                              "%s is applied to a quotient whose denominator `%s` contains `%s`: for exactly parallel or anti-parallel "
                              "operands the two terms cancel and the division raises ZeroDivisionError instead of returning 0 or pi "
                              "(atan2(numerator, denominator) is total)" % (name, txt(bad[0].right)[:50], txt(bad[1])[:40]),
                              construct="%s: %s of a quotient with a cancelling denominator" % (fi.short, name))
            continue
        if name in ("math.atan2", "atan2") and len(c.args) == 1:
            continue
        if name not in ("math.acos", "math.asin", "acos", "asin"):
            continue
        n += 1
        arg = c.args[0]
        ok = _range_safe(ctx, fi, arg)
        if not ok:
            # range guards dominating the call: on every path to it both  x <= 1  and  x >= -1  have been established
            # (`if x > 1: return 0.0`, `if x < -1: return math.pi`)
            g = ctx.cfg(fi)
            par = {}
            for x_ in ast.walk(fi.node):
                for ch in ast.iter_child_nodes(x_):
                    par[id(ch)] = x_
            stmt = c
            while id(stmt) in par and not isinstance(stmt, ast.stmt):
                stmt = par[id(stmt)]
            nodes = g.nodes_of(stmt)
            want = txt(arg)
            hi = lo = False
            NEG = {ast.Lt: ast.GtE, ast.LtE: ast.Gt, ast.Gt: ast.LtE, ast.GtE: ast.Lt}
            FLIP = {ast.Lt: ast.Gt, ast.LtE: ast.GtE, ast.Gt: ast.Lt, ast.GtE: ast.LtE}
            for cn, _, lab in (g.dominating_edges(nodes[0]) if nodes else []):
                e = g.nodes[cn].ast
                if not (isinstance(e, ast.Compare) and len(e.ops) == 1 and type(e.ops[0]) in NEG):
                    continue
                op, l_, r_ = type(e.ops[0]), e.left, e.comparators[0]
                if txt(r_) == want and const_num(l_) is not None:
                    op, l_, r_ = FLIP[op], r_, l_
                if txt(l_) != want or const_num(r_) is None:
                    continue
                k = const_num(r_)
                if lab == "F":
                    op = NEG[op]
                if op in (ast.Lt, ast.LtE) and k <= 1:
                    hi = True
                if op in (ast.Gt, ast.GtE) and k >= -1:
                    lo = True
            # the guarded variable must not be re-assigned between the guards and the call
            stable = isinstance(arg, ast.Name) and len(asg.get(arg.id, [])) <= 1
            ok = hi and lo and stable
        res.ob(rule, fi.where(c), "%s: %s(...)" % (fi.short, name), ok,
               "argument clamped / guarded into [-1, 1]" if ok else "argument `%s` is not clamped" % txt(arg)[:60])
        if not ok:
            res.violation(rule, fi, c,
                          "%s is applied to `%s`, which rounding can push outside [-1, 1] (e.g. 1.0000000000000002 for "
                          "parallel vectors): ValueError instead of an angle" % (name, txt(arg)[:70]),
                          construct="%s: unclamped %s" % (fi.short, name))
    return n
