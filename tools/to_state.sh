#!/bin/bash
# usage: to_state.sh <worktree> full|neutral|orig   -- switch a hidden-break worktree between its three states using only
# `git apply` / `git apply -R` of its saved patches (never checkout / stash: new files are tracked with `git add -N`)
W=$1; S=$2; cd $W || exit 2
cur=$(git diff -- Geometry3D | md5sum | cut -d' ' -f1)
pf=$(md5sum < patch.diff | cut -d' ' -f1); nf=$(md5sum < neutral_part.diff | cut -d' ' -f1); em=$(printf '' | md5sum | cut -d' ' -f1)
state=unknown
[ "$cur" = "$pf" ] && state=full
[ "$cur" = "$nf" ] && state=neutral
[ "$cur" = "$em" ] && state=orig
if [ $state = unknown ]; then
  # the index line of a diff can differ; compare by content after applying in reverse
  if git apply -R --check patch.diff 2>/dev/null; then state=full; elif git apply -R --check neutral_part.diff 2>/dev/null; then state=neutral; else echo "cannot determine the state of $W"; exit 2; fi
fi
[ $state = $S ] && { echo "$W: already $S"; exit 0; }
case $state in full) git apply -R patch.diff;; neutral) git apply -R neutral_part.diff;; esac
case $S in full) git apply patch.diff;; neutral) git apply neutral_part.diff;; esac
echo "$W: $state -> $S"
