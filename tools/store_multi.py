#!/usr/bin/env python3
"""Store the confirmed changes of a multi-seed round: tools/store_multi.py <round> <dir with Cxx worktrees> <dir with Cxx.txt>
For every worktree Cxx and i: change_i.diff, demo_i.py, row i of SUMMARY.txt and line i of the confirm_multi.sh output
-> /verif/seeded/R<round>-Cxx-<i>-<slug>/{patch.diff, demo.py, meta.json}.  A change is kept only when the tests passed with
it, its demo passes on the original tree and fails with the change (all observed by confirm_multi.sh)."""
import json
import os
import re
import shutil
import subprocess
import sys

rnd, wroot, oroot = sys.argv[1], sys.argv[2], sys.argv[3]
KIND = sys.argv[4] if len(sys.argv) > 4 else "small-slip (one of six per property)"
WRITTEN = sys.argv[5] if len(sys.argv) > 5 else None
VERIF = os.path.dirname(os.path.dirname(os.path.abspath(__file__)))
NOTES = {}
notes_file = os.path.join(oroot, "NOTES.json")
if os.path.isfile(notes_file):
    NOTES = json.load(open(notes_file))
base = subprocess.run(["git", "-C", "/repo", "rev-parse", "--short", "HEAD"], capture_output=True, text=True).stdout.strip()
kept = 0
for prop in sorted(os.listdir(wroot)):
    w = os.path.join(wroot, prop)
    out = os.path.join(oroot, prop + ".txt")
    if not (re.fullmatch(r"C\d\d", prop) and os.path.isdir(w) and os.path.isfile(out)):
        continue
    rows = {}
    sp = os.path.join(w, "SUMMARY.txt")
    if os.path.isfile(sp):
        for line in open(sp):
            m = re.match(r"\s*(\d)\s*\|(.*)", line)
            if m:
                rows[int(m.group(1))] = [x.strip() for x in m.group(2).split("|")]
    for line in open(out):
        m = re.match(r"(\d): tests\[(.*?)\] demo orig=(\d+) changed=(\d+) \| reported by:(.*?) \| fail-closed:(.*)", line.strip())
        if not m:
            continue
        i = int(m.group(1))
        tests, d0, d1 = m.group(2), int(m.group(3)), int(m.group(4))
        if "87 passed" not in tests or d0 != 0 or d1 == 0:
            print("skip %s-%d: %s" % (prop, i, line.strip()))
            continue
        det = re.findall(r"(C\d\d)\((R[\d.a-z]*)\)", m.group(5))
        closed = re.findall(r"C\d\d", m.group(6))
        row = rows.get(i, ["?", "?", "?", "?"])
        where = row[0]
        slug = re.sub(r"[^a-z0-9]+", "-", where.split(":")[-1].lower()).strip("-")[:40] or "change"
        sid = "R%s-%s-%d-%s" % (rnd, prop, i, slug)
        dst = os.path.join(VERIF, "seeded", sid)
        os.makedirs(dst, exist_ok=True)
        shutil.copy(os.path.join(w, "change_%d.diff" % i), os.path.join(dst, "patch.diff"))
        shutil.copy(os.path.join(w, "demo_%d.py" % i), os.path.join(dst, "demo.py"))
        meta = {
            "id": sid, "property": prop, "round": int(rnd), "kind": KIND,
            "written_by": WRITTEN or ("independent sub-agent given only the property text and a scratch worktree of /repo, asked for six different "
                          "small property-breaking changes, each with its own demonstration"),
            "where": where,
            **({"kind_and_commit_message": row[1], "change": row[2], "why_it_breaks": row[3], "needs_to_manifest": row[4]} if len(row) >= 5 else
               {"change": row[1] if len(row) > 1 else "?", "why_it_breaks": row[2] if len(row) > 2 else "?",
                "needs_to_manifest": row[3] if len(row) > 3 else "?"}),
            "detected_by": sorted({p for p, _ in det}),
            "detected_by_rules": ["%s %s" % (p, r) for p, r in det],
            "fail_closed_in": closed,
            "not_detected_by": [] if any(p == prop for p, _ in det) else [prop],
            "confirmed": {"tests_with_change": tests, "demo_without_change": "exit 0 (PASS)", "demo_with_change": "exit %d (FAIL)" % d1,
                          "how": "tools/confirm_multi.sh <worktree>: the change applied alone in the sub-agent's scratch worktree, the 87 tests, "
                                 "the demo with and without it, and all 16 quick checks against that tree; reverted afterwards"},
            "base_commit": base,
        }
        note = NOTES.get("%s-%d" % (prop, i))
        if note:
            meta["note"] = note
        json.dump(meta, open(os.path.join(dst, "meta.json"), "w"), indent=1)
        kept += 1
print("stored", kept)
