#!/bin/bash
# usage: confirm_multi.sh <worktree> [<n>]  -- a worktree with change_i.diff + demo_i.py (i = 1..n, default 6), tree unmodified.
# For each i: apply the change alone, run the tests and the demo, run all 16 quick checks (in parallel), revert; one line per change.
W=$1; N=${2:-6}; cd $W || exit 2
if [ -n "$(git diff --stat -- Geometry3D)" ]; then echo "tree not clean"; exit 2; fi
E=/tmp/ev/multi_$(basename $W); mkdir -p $E
for i in $(seq 1 $N); do
  [ -s change_$i.diff ] || { echo "$i: no change_$i.diff"; continue; }
  PYTHONPATH=$W /venv/bin/python -B demo_$i.py >/dev/null 2>&1; d0=$?
  git apply change_$i.diff || { echo "$i: does not apply"; continue; }
  t=$(PYTHONPATH=$W /venv/bin/python -B -m pytest -q -p no:cacheprovider unit_tests 2>&1 | tail -1 | cut -c1-30)
  PYTHONPATH=$W /venv/bin/python -B demo_$i.py >/dev/null 2>&1; d1=$?
  printf '%s\n' C01 C02 C03 C04 C05 C06 C07 C08 C10 C11 C12 C14 C15 C18 C19 C20 | xargs -P 16 -I{} sh -c \
    "cd /verif && /venv/bin/python -m g3dsa.check {} --repo $W --evidence-dir $E/ev_{} > $E/{}.out 2>&1; echo \$? > $E/{}.rc"
  det=""; closed=""
  for p in C01 C02 C03 C04 C05 C06 C07 C08 C10 C11 C12 C14 C15 C18 C19 C20; do
    rc=$(cat $E/$p.rc)
    if [ "$rc" = 1 ]; then r=$(grep -m1 -oE ': R[0-9]+\.[0-9]+[a-z]? ' $E/$p.out | tr -d ': '); det="$det $p($r)"; fi
    if [ "$rc" = 2 ]; then closed="$closed $p"; fi
  done
  git apply -R change_$i.diff
  echo "$i: tests[$t] demo orig=$d0 changed=$d1 | reported by:${det:- NONE} | fail-closed:${closed:- -}"
done
rm -rf $E
