#!/usr/bin/env python3
"""Regenerates /verif/MANIFEST.json from the table below (single source of truth)."""
import json
import os
import sys

HERE = os.path.dirname(os.path.dirname(os.path.abspath(__file__)))
PY = "/venv/bin/python"

NOTE_COMMON = (
    "Trusted base: CPython's ast parser and the g3dsa engine in /verif. Assumptions A1-A5 of DESIGN.md 2.7 "
    "(Python dispatch semantics; no monkey-patching / user subclasses -- checked on the package itself; valid "
    "operands; deepcopy independence). Only explicit raise statements are control-flow edges. "
)

CONF = ("compositional obligation (taint-style) dataflow for set confinement over the handler call graph + CFG guard idioms "
        "(static analysis, ast)")

CLAIMS = {
    "C01": dict(
        technique=CONF + "; candidate-origin (may-reach) analysis of the end-point families; kernel partial-operation guards by CFG dominance",
        ref="DESIGN.md 3.1, 3 (C01)",
        text=(
            "Decides three structural necessary conditions of C01 for all operands: (1) confinement -- for every return "
            "site of the 15 flat x flat handlers the result is a subset of both operands (guards: X in Y, X == Y, carrier "
            "coincidence, all end points inside a convex operand; three numeric kernel axioms), so a carrier-line hit "
            "returned without clipping, a dropped membership conjunct or a wrongly guarded end point is reported at the "
            "offending statement; (2) every end point of each operand is a candidate family of the handler's result (flow-sensitive "
            "candidate-origin analysis: which part of which operand can reach the returned value; whole-operand returns for nested "
            "half-lines) and no result return of the candidate region -- in particular no `return None` -- "
            "can bypass a family, so overlaps are not reduced to one end point or reported as disjoint; (3) the "
            "kernels' partial operations (division by n.dv, normalised cross products) are guarded by the parallel tests; (4) a numeric "
            "ordering comparison that leads straight to `return None` leaves a tolerance margin (merely touching operands are not "
            "reported as disjoint because of float noise). "
            "Also decided (round 9): no position / direction mismatch in the code the property reaches and in the constructors of its operands (affine weights: a Vector argument in a constructor slot or move() must have the weight the slot fixes); the handlers' internal sanity raises are unreachable (also through type switches whose rows test different variables); each handler is bound by the dispatcher in one orientation; the linear solver picks its pivot by the pivot column. Round 10: no computed number is rounded on its way into the result (R1.9); the solver's pivot is chosen by magnitude (R1.5); a Segment built from an end point of each operand is guarded by a test that they differ (R1.10). Round 12: a Segment built from two items of a plain list needs every append behind a `not in` filter (R1.10). NOT decided: that the kernels compute the right coordinates, that no point is missed in generic position, "
            "the tolerance band, None only when disjoint."
        ),
        note=NOTE_COMMON + "A4: the three numeric kernels and the membership predicates compute what their names say.",
    ),
    "C02": dict(
        technique=CONF + "; candidate-origin analysis of the boundary families with sibling comparison of the hit-set helpers; propositional exhaustiveness on the CFG; tolerance-margin lint of the clipping predicates",
        ref="DESIGN.md 3.1, 3 (C02)",
        text=(
            "Decides structural necessary conditions of C02: confinement of every return site of the 10 flat x "
            "{polygon, polyhedron} handlers and of the 3 hit-set helpers in both operands; boundary-family completeness "
            "(faces AND edges of the polyhedron, the full edge cycle of the polygon, contained end points / origin added "
            "under their membership test, no result return bypassing a family -- decided on candidate-origin families, independent "
            "of loops / comprehensions / private helpers) with identical families of the two "
            "sibling helpers; propositional exhaustiveness of the end-point case split of segment x polyhedron; the Point-in-polygon / "
            "Point-in-polyhedron predicates that clip every hit reject only beyond a tolerance margin that depends on the live get_eps() "
            "(touching and boundary hits are not lost to float noise), and so do numeric comparisons that lead straight to `return None` in the handlers and helpers "
            "(whether such a numeric pre-filter is geometrically right is NOT decided); the hits are merged only through the tolerant Point equality / hash -- no dictionary, "
            "duplicate filter or count keyed by raw coordinate tuples (R2.6). Also decided (round 9): no position / direction mismatch in the code the property reaches and in the constructors of its operands (affine weights: a Vector argument in a constructor slot or move() must have the weight the slot fixes); the handlers' internal sanity raises are unreachable (also through type switches whose rows test different variables); each handler is bound by the dispatcher in one orientation; the linear solver picks its pivot by the pivot column. Round 10: no computed number is rounded on its way into the result (R2.11); pivot by magnitude (R2.7). NOT decided: coordinates, the "
            "longest-segment selection, hash-merging of coincident hits, tangency classification."
        ),
        note=NOTE_COMMON + "A4 as for C01.",
    ),
    "C03": dict(
        technique=CONF + "; candidate-origin analysis of the mirrored vertex / edge / face families; dimension order of the selection chain from inferred element types",
        ref="DESIGN.md 3.1, 3 (C03)",
        text=(
            "Decides structural necessary conditions of C03: confinement of every return site of the three body x body "
            "handlers; no identity map / duplicate filter keyed by raw coordinates in the intersection code (R3.5); swap closure of the candidate collection (vertices of a in b and of b in a; edge "
            "crossings; faces of each polyhedron clipped by the other -- as candidate-origin families of the result; "
            "every result return -- in particular `return None` -- lies behind all of these candidate families); result selection ordered by dimension and the cardinality ladders 0/1/2 points -> None/Point/Segment. NOT "
            "decided: that the collected vertex set is the true one, Euler reassembly, hash deduplication, measures."
            ' Also decided (round 9): no position / direction mismatch in the code the property reaches and in the constructors of its operands (affine weights: a Vector argument in a constructor slot or move() must have the weight the slot fixes); internal sanity raises unreachable; handler bindings in one orientation; pivot column; the collinearity helper that guards the coplanar polygon / polygon routine answers True only with at most two points or after testing every further index. '
            ' Round 10: no rounding of computed numbers (R3.11); pivot by magnitude (R3.7); an early `return None` in front of every candidate family is guarded by type / None tests only -- no geometric quick rejection (R3.2). '
        ),
        note=NOTE_COMMON + "A4 as for C01.",
    ),
    "C06": dict(
        technique="interprocedural homogeneity-degree abstract domain + cycle-loop lint + accumulation shape + monomial normal form of the pyramid formula (static analysis, ast)",
        ref="DESIGN.md 3 (C06)",
        text=(
            "Decides four structural necessary conditions of C06 for all shapes: each of the 11 measure functions has the "
            "homogeneity degree of a length / area / volume under scaling all coordinates (a dropped square root, a missing "
            "or extra length factor, a sum of a length and an area are reported at the sub-expression); the vertex-cycle "
            "loops cover all indices with a wrap-around successor; the polyhedron measures accumulate unconditionally over "
            "the whole edge set (a set: each edge once) / face list / pyramid set with exactly one pyramid per face in "
            "__init__ and move; the pyramid volume is 1/3 x height x base area in monomial normal form in both "
            "Pyramid.volume and volume(), which sum the same pyramids. Also decided (round 9): a measure of a class with item assignment reads only the fields the assignment writes (R6.5). Round 10: no measure is rounded (R6.6). NOT decided: Heron / centroid-fan numerics to 1e-9, "
            "independence from vertex and face order (runtime sort, C09)."
        ),
        note=NOTE_COMMON,
    ),
    "C12": dict(
        technique=CONF + " over all 28 handlers, helpers and dispatcher; type-set evaluation of the None cases",
        ref="DESIGN.md 3.1, 3 (C12)",
        text=(
            "Decides exactly two of C12's four laws for all operands: every vertex or end point of intersection(a, b) lies "
            "in both a and b -- the confinement theorem over every return site of the 28 handlers, the 3 hit-set helpers "
            "and the dispatcher, verified together (assume-guarantee over the mutual recursion); and None is absorbing "
            "(abstract evaluation of the dispatcher with None in either position; no direct handler call can receive a "
            "possibly-None argument). Also decided (round 9): the collinearity helper answers True only with at most two points or after testing every further index (R12.4), so intersection(T, T) of a triangle cannot raise. Round 10: no computed number is rounded on its way into the result (R12.5). NOT decided: idempotence, a in b => intersection(a, b) == a, associativity (they "
            "relate the results of different runtime computations)."
        ),
        note=NOTE_COMMON + "A4 as for C01.",
    ),
    "C04": dict(
        technique="type-set abstract interpretation + dispatch-table evaluation + CFG dominance (static analysis, ast)",
        ref="DESIGN.md 3 (C04)",
        text=(
            "Decides, for all inputs, the structural clauses of C04: totality of the isinstance dispatch over the 49 "
            "ordered operand-type pairs (abstract first-match evaluation), identical handler and parameter binding "
            "for both argument orders (symmetry by construction), method-form forwarding on the six GeoBody types, "
            "None absorption, inferred result types within the documented table for every ordered pair, "
            "unreachability of the internal raises by types / equality correlation / propositional exhaustiveness / "
            "add-count, that no membership test used by the handlers can fall through to NotImplementedError, and -- for the same-type "
            "pairs, where both argument orders run one handler with exchanged operands -- that at every result return the set of "
            "consulted candidate families (candidate-origin analysis) is closed under exchanging the operands. "
            "Also decided (round 9): type switches whose rows test different variables (R4.7); the collinearity helper answers True only with at most two points or after testing every further index (R4.10), so a triangular common part cannot raise 'Bug detected'. Round 10: the method form raises for no operand type the function form supports (R4.4); pivot by magnitude (R4.11). NOT decided (listed as `undecided` in evidence): raises guarded only by runtime cardinalities or "
            "numeric geometry, and numeric coincidence of handler(a,b) and handler(b,a) for same-type pairs."
        ),
        note=NOTE_COMMON + "Kernel type fact (A4): in inter_plane_plane the auxiliary line meets plane b in a Point.",
    ),
    "C05": dict(
        technique="abstract evaluation of __contains__/in_ dispatch on operand type tags + syntactic/CFG conjunction check (static analysis, ast)",
        ref="DESIGN.md 3 (C05)",
        text=(
            "Decides two structural clauses of C05 for all inputs: (1) each of the 18 supported (x, S) pairs resolves -- "
            "through the isinstance branches, the class_level constants and the forward to x.in_(S) -- to a branch that "
            "returns a boolean expression, never to a fallback (raise, returned exception object, always-False branch, "
            "missing in_); (2) every composite branch tests all defining points of x (both end points of a Segment; origin "
            "plus a direction condition of the right tangent/normal kind for HalfLine and Line; plane equality or a "
            "universally quantified vertex loop for ConvexPolygon), which by convexity of S is equivalent to containment "
            "while dropping a conjunct is not; (3) for the bounded containers every accepting return of the Point branch depends on "
            "or is guarded by membership in the carrier line / plane, and the polyhedron test is a universal loop over all faces; "
            "with no accepting return before the loop has completed; "
            "(4) every membership predicate is effect-free, so one `in` test cannot change the answer of the next; (5) every ordering "
            "comparison that can reject a Point leaves a tolerance margin depending on the live get_eps() (boundary points count as contained; "
            "an exact `< 0` threshold is reported). Also decided (round 9): no position / direction mismatch in the code the property reaches and in the constructors of its operands (affine weights: a Vector argument in a constructor slot or move() must have the weight the slot fixes) (R5.6). Round 10: the point stored for Plane(a, b, c, d) does not depend on the scale of the equation (R5.7); threshold comparisons with operands of unknown type are examined too (R5.5). NOT decided: the numerical truth of the Point-in-S predicates and the width of the tolerance band."
        ),
        note=NOTE_COMMON + "Defining points are read from the inferred field table, not hard-coded.",
    ),
    "C07": dict(
        technique="forward must-dataflow over the CFG of each move() against the class field table (affine-kind classification), def-use on v (static analysis, ast)",
        ref="DESIGN.md 3 (C07)",
        text=(
            "Decides C07's structural clauses for every receiver and every move vector: on every path of each of the 7 "
            "move() methods from the accepting edge of isinstance(v, Vector) to a normal exit, every positional field of "
            "the class (18 positional / 3 directional, derived from all self.f stores with an affine-kind algebra for "
            "vector fields) is refreshed -- moved in place by the same v, shifted component-wise with matching axes, or "
            "re-assigned from data depending on v / refreshed state and on no stale positional field; the success path "
            "returns a constructor call of the own class built from refreshed state; a non-Vector argument raises. A "
            "forgotten cached field (carrier line, plane, centre, edge/pyramid sets) is exactly what makes queries on "
            "the moved receiver answer for the old position. No two in-place translations on one path of a move() reach the same object (the same field twice, or two fields that share an object "
            "because a by-reference constructor was fed from the other field -- derived from the effect summaries). Any other value stored on the object (a memoised measure, hash, "
            "pre-computed edge data) must be re-assigned or deleted by move(), or be translation invariant by a translation-invariance domain (positions, coordinates, "
            "differences, invariant scalars; interprocedural) -- in that domain the measure methods (Point.distance, length, area, volume, Pyramid.height) evaluate to "
            "'invariant', i.e. measures are unchanged by construction. Also decided (round 9): no position / direction mismatch in the code the property reaches and in the constructors of its operands (affine weights: a Vector argument in a constructor slot or move() must have the weight the slot fixes) (R7.7); Vector item access, through which Line.move translates component by component, is a plain element store / read (R7.6). NOT decided: the function volume() (through distance / intersection), v then -v restores "
            "equality (floating point)."
        ),
        note=NOTE_COMMON,
    ),
    "C08": dict(
        technique="degree/parity abstract domain + symmetric-pair idiom + polynomial normal forms of the hashed value under gauge transformations (static analysis, ast)",
        ref="DESIGN.md 3 (C08)",
        text=(
            "Decides the structural clauses of C08 for all objects: every class with __eq__ has __hash__; __eq__ of Point, "
            "Line, Plane, ConvexPolygon, ConvexPolyhedron returns False on foreign types; polygon/polyhedron equality is "
            "hash equality (so a == b implies equal hashes by construction); every __hash__ is invariant under the "
            "representation freedoms its __eq__ ignores -- length and sign of a Line's direction, sign of a Plane's normal, "
            "positive scale of a HalfLine's vector, exchange of a Segment's end points, plane orientation and vertex/face "
            "order of polygons/polyhedra, and the choice of the stored support point of a Line / Plane -- decided in a "
            "degree/parity domain and by polynomial normal forms of the hashed value; __eq__/__hash__ store nothing on the "
            "(mutable) object, so a remembered hash cannot go stale after move / coordinate assignment / tolerance change; "
            "Segment.__eq__ accepts both pairings; __eq__ uses direction fields only under parallel()/normalized() (also through helpers it delegates to). The parity domain joins over all definitions of a local; a conditional negation counts as a canonical orientation only if its guard orients all three components. Also decided (round 9): the coordinate hash of Point / Vector separates every coordinate (polygon / polyhedron equality is equality of accumulated vertex hashes; R8.9); no exact float decision is reached from __eq__ / __hash__ (R8.10). Round 10: == returns False for a Vector, a str, a list, a 3-tuple and None as well (R8.2). NOT decided: that different sets "
            "compare unequal, rounding-boundary effects, int/Fraction mixing."
        ),
        note=NOTE_COMMON + "hash(), round() and normalized() are modelled as functional opaque atoms of their canonical arguments.",
    ),
    "C10": dict(
        technique="type-set dispatch evaluation + sign domain + R-CROSS guard dominance on the CFG (static analysis, ast)",
        ref="DESIGN.md 3 (C10)",
        text=(
            "Decides the structural clauses of C10: distance() has a branch for each of the 8 documented ordered pairs, the "
            "four swapped orders forward to distance(b, a) or exchange the operands in front of one shared dispatch (one computation for both orders, no unbounded recursion), the "
            "else raises; every returned value -- of distance() and of the module helpers whose value it returns -- is non-negative (sign domain); no branch of distance() or "
            "its helpers decides on the exact value (truthiness, == c, != c) of a coordinate-derived float (R10.6); the method forms forward (self, other); and "
            "no normalised cross product of direction vectors is taken without a guard that excludes parallel AND "
            "anti-parallel operands on every path (R-CROSS), so that parallel lines cannot raise; every computed value is of degree 0 "
            "and even in each Line's direction vector (two representations of one line give one distance). Also decided (round 9): no position / direction mismatch in the code the property reaches and in the constructors of its operands (affine weights: a Vector argument in a constructor slot or move() must have the weight the slot fixes) (R10.8); exact float decisions over everything distance() reaches on the documented pairs (R10.6), degree 1 and no mixed-degree sums (R10.7), never the distance between one stored representative of each of two infinite sets (R10.9), one sign convention for the general form a x + b y + c z = d in its writer, its reader and the solver (R10.10). Round 10: the point stored for Plane(a, b, c, d) does not depend on the scale of the equation (R10.11). NOT decided: that the "
            "value is the Euclidean minimum and that it is zero exactly when the operands intersect."
        ),
        note=NOTE_COMMON,
    ),
    "C11": dict(
        technique="type-set dispatch evaluation + interval domain for angle folding + tangent/normal kind table + R-ACOS (static analysis, ast)",
        ref="DESIGN.md 3 (C11)",
        text=(
            "Decides the structural clauses of C11: each of angle/parallel/orthogonal has branches for the five operand "
            "pairs with the mixed pair computed once and the swapped order forwarding to it; every angle result lies in "
            "[0, pi/2] by an interval domain (acute() folds exactly at pi/2); the vector predicate is swapped and the angle "
            "complemented iff the two direction kinds (tangent/normal) differ; every acos argument is clamped to [-1, 1] so "
            "that parallel, anti-parallel and perpendicular operands cannot raise; the method forms forward (self, other). "
            "Inverse trigonometric sites: acos/asin arguments are clamped, atan is not applied to a quotient whose denominator is a sum or difference of the operands (atan2 is total). "
            "A predicate decided by comparing an inverse-cosine angle with the tolerance is reported (acos(1 - 2**-53) is about 1.5e-8). "
            "Also decided (round 9): predicate branches that call the sibling dispatcher or compare the direction vectors with == are classified (R11.3); no exact float decision is reached (R11.6); degree 0 (R11.7). NOT decided: that parallel/orthogonal are True exactly at angle 0 / pi/2 (tolerance numerics)."
        ),
        note=NOTE_COMMON,
    ),
    "C14": dict(
        technique="effect/ownership summaries + R-CROSS guard dominance per reaching definition + CFG rejection guard + cycle-loop lint + sibling-call agreement of caps and rings (static analysis, ast)",
        ref="DESIGN.md 3 (C14)",
        text=(
            "Decides four structural clauses of C14: the seven builders have no effect on their arguments (every in-place "
            "move acts on a deep copy or a fresh Point -- interprocedural effect summaries); the circle frame's normalised "
            "cross products are guarded against parallel AND anti-parallel operands for each reaching definition of the "
            "base axis, so axis directions along or opposite to a coordinate axis cannot raise; both frame vectors of the circle are "
            "cross products with the normal as a factor, mutually perpendicular and of equal length by construction (vertices stay in "
            "the circle's plane for every normal, also near-axis ones); n < 3 is rejected on every "
            "path with the right threshold; every ring/cap/side loop ranges over the full index range with a wrap-around "
            "successor (modulo, if-idiom, wrap helper or zip-with-rotation); in Cylinder and Cone every vertex ring used for the side faces is requested with the same "
            "centre, normal (up to a positive factor), radius and n as a cap, so caps and side faces share their vertices; the rejection guards of Parallelogram / Parallelepiped are even in every edge vector (parity domain: "
            "a signed area / triple product compared one-sidedly refuses half of the valid argument orders). Also decided (round 9): no position / direction mismatch in the code the property reaches and in the constructors of its operands (affine weights: a Vector argument in a constructor slot or move() must have the weight the slot fixes) (R14.9); every builder input has a data or control dependence to the object returned (R14.8); Sphere's latitude rings are stacked in the order in which the faces connect them (R14.10). Round 10: no vertex coordinate is rounded (R14.11). NOT decided: vertex/edge/face counts, vertices on the specified surface at equal steps, closed-form "
            "area and volume (numeric)."
        ),
        note=NOTE_COMMON,
    ),
    "C15": dict(
        technique="CFG must-pass-through of rejection guards + def-use + homogeneity-degree domain on the guard expressions + type-set abstract evaluation on unsupported operand types (static analysis, ast)",
        ref="DESIGN.md 3 (C15)",
        text=(
            "Decides the structural clauses of C15 for all inputs: each validation named in the statement is a rejection "
            "guard (a condition one of whose edges leads only to raise) that lies on every normal path of its "
            "constructor/helper, is data-dependent on the inputs it validates, reads the live tolerance where "
            "near-degenerate inputs are named, is a statement about *directions* where dependent edge vectors are named (homogeneity-degree "
            "domain: a quantity of positive degree in the edge vectors compared with an absolute tolerance is reported), has the right count threshold, and -- for element-wise validations -- "
            "sits in a loop over the validated collection that no iteration can complete without; unsupported operand "
            "types make intersection/distance/angle/parallel/orthogonal/volume/move and the typed constructors raise "
            "(abstract evaluation on the unsupported types); exception objects are raised, not returned; constructors "
            "assign all their fields. Also decided (round 9): repeated vertices are merged before the first three stored vertices define the plane (R15.5). Round 12: a length is compared with the tolerance, a squared length with the squared tolerance (R15.6). NOT decided: rejections that happen only through arithmetic/index exceptions "
            "(zero normal, collinear plane points, <3 distinct vertices) and whether the guards are sufficient."
        ),
        note=NOTE_COMMON + "Guards are recognised by CFG shape and data dependence, never by text.",
    ),
    "C18": dict(
        technique="symbolic interpretation of the vector/point code over polynomial-ring indeterminates, comparison of normal forms (static analysis, ast; no execution)",
        ref="DESIGN.md 3 (C18)",
        text=(
            "Decides the exact-algebra clauses of C18 for all inputs of any ring type: the real code of +, -, dot, scalar "
            "multiplication from both sides, negation, cross, the three Vector constructor forms, Point.pv, Point(Vector), "
            "Point.move and the constant vectors is interpreted over symbolic coordinates and its polynomial normal forms "
            "equal the textbook component formulas (any algebraically equal rewrite is accepted; the identities "
            "a.(a x b)=0, a x b=-(b x a), Lagrange are re-derived); these operations contain no coercion, division or "
            "float literal; the promotion ranks are user < Fraction < Decimal < float < int with the minimum selected and "
            "applied to every item; both constructors store promoted coordinates on every path; zero() and the unit vectors "
            "build a fresh Vector on every call (not memoised, no shared state); acos is clamped; length / normalized / unit / angle contain no comparison of a positive-degree quantity of the vector with an absolute threshold (homogeneity-degree domain), so no part of the claimed range of magnitudes is treated as degenerate; a constant result of angle() is returned only under a condition that reads the dot product of the operands (R18.7), so opposite directions are never given the angle of equal ones. NOT decided: the numeric value of |normalized(v)| and of the angle, Decimal behaviour."
        ),
        note=NOTE_COMMON + "A rewrite outside the handled fragment (numpy, explicit loops) fails closed with exit 2.",
    ),
    "C19": dict(
        technique="name-resolution / scoping dataflow over imports + constant folding of the setters (static analysis, ast)",
        ref="DESIGN.md 3 (C19)",
        text=(
            "Decides that every tolerance the library uses is a live read of the configuration: no expression outside "
            "utils/constant.py reads the import-time names FLOAT_EPS/SIG_FIGURES (resolved through explicit and star "
            "imports), getter results are never cached beyond one function activation (module/class level, default "
            "arguments, attributes, globals), every rounding precision derives from get_sig_figures(), no comparison "
            "uses a private float literal below 1e-3 or an approximate-comparison helper (math.isclose / allclose) whose built-in relative tolerance is left on, and both setters declare and assign both globals on every path "
            "with the stated relation at the defaults and at one further setting (constant folding of the setters' own "
            "expressions; whole package incl. visualization); no branch outside utils/solver.py decides on the exact value (truthiness, == c, != c) of a "
            "coordinate-derived float (R19.5; two tabled constructor validations) and no set / dictionary / membership test identifies points by raw coordinate "
            "tuples instead of the tolerant __eq__ / __hash__ (R19.6). Round 10: no computed number is rounded outside the hash / eq / repr methods (R19.7); the thresholds of Point / Vector equality do not depend on the coordinates (R19.8). NOT decided: the numeric clauses (eps/1000 compares and "
            "hashes equal, 4*eps compares unequal)."
        ),
        note=NOTE_COMMON + "An imported name is bound to the value at import time (Python scoping), a call is a live read.",
    ),
    "C20": dict(
        technique="interprocedural effect / ownership (alias) summaries over the whole call graph, callees resolved by type-set inference (static analysis, ast)",
        ref="DESIGN.md 3 (C20)",
        text=(
            "Decides C20's structural content for all operands and histories: every function other than the declared "
            "in-place mutators (7 move, 3 __setitem__, constructors on their own object, solve/gaussian_elimination on "
            "their matrix, the configuration setters) writes no object reachable from a parameter, self or module state, "
            "hence intersection, in, distance, angle, parallel, orthogonal, ==, hash, repr, length, area, volume and all "
            "their helpers are pure; the mutators write only their receiver; no query writes module/class state or reads "
            "mutable globals other than tolerance and logger, no memoised function hands out a mutable object (history "
            "independence); the constructors of Segment, "
            "HalfLine, ConvexPolygon, ConvexPolyhedron capture nothing by reference and Line built from Points stores "
            "fresh vectors; a store by a query into a hidden per-object cache is accepted only as a memo field (initialised to None or absent, written behind its sentinel / "
            "AttributeError test, read by nothing but its accessors, not handing out mutable state, translation invariant or dropped by every in-place mutator, "
            "independent of the tolerance); a __deepcopy__ hook is verified field by field to be the structural deep copy (every field deep-copied, or immutable, or a fresh "
            "container of immutable elements), other copy hooks, __slots__ or identity-based eq/hash (beyond the reflexive fast path) are reported, so a deep copy is independent "
            "and equal. Outside: floating-point values of the snapshots."
            ' Also decided (round 9): a __deepcopy__ that rebuilds the object through a constructor which captures a mutable field shares it (R20.4); literal getattr / __dict__ membership are read as attribute accesses. '
            ' Round 10: __copy__ hooks are verified as the default shallow copy written out, fields rebuilt from immutable parts count as deep-copied (R20.4). '
        ),
        note=NOTE_COMMON + "Alias abstraction (S = what the object is, E = what it reaches) is a may-analysis: sound for 'no effect'.",
    ),
}

NOT_APPLICABLE = [
    ("C09", "runtime angular sort / orientation / centroid arithmetic: no sound static argument bounds these values (DESIGN.md 4)"),
    ("C13", "equivariance of numerical results under isometries/scaling is a statement about runtime values; the scaling-degree clause is decided under C06 (DESIGN.md 4)"),
    ("C16", "solver consistency/rank/solution correctness quantify over matrix values; data-dependent pivoting (DESIGN.md 4)"),
    ("C17", "round trips go through solve and floating point; no structural clause that is a necessary condition remains (DESIGN.md 4)"),
]

ALL = ["C%02d" % i for i in range(1, 21)]


def main():
    have_selftest = os.path.isfile(os.path.join(HERE, "g3dsa", "selftest.py"))
    checks = []
    for pid in ALL:
        if pid not in CLAIMS:
            continue
        c = CLAIMS[pid]
        entry = {
            "property_id": pid,
            "quick_cmd": "%s -m g3dsa.check %s --tier quick" % (PY, pid),
            "evidence_file": "/verif/evidence/%s.json" % pid,
            "replay_cmd_template": "%s -m g3dsa.check --replay {path}" % PY,
            "engine": "g3dsa",
            "level_claimed": {"category": "other", "text": c["text"], "design_ref": c["ref"]},
            "level_note": c["note"],
            "technique": c["technique"],
        }
        if have_selftest and c.get("thorough", True):
            entry["thorough_cmd"] = "%s -m g3dsa.check %s --tier thorough" % (PY, pid)
        checks.append(entry)
    na = [{"property_id": p, "reason": r} for p, r in NOT_APPLICABLE]
    pending = [p for p in ALL if p not in CLAIMS and p not in dict(NOT_APPLICABLE)]
    for p in pending:
        na.append({"property_id": p, "reason": "check not built yet (planned, see DESIGN.md 3); not claimed in this commit"})
    na.sort(key=lambda x: x["property_id"])
    m = {
        "version": 1,
        "setup_cmd": "%s -c \"import ast, sys; sys.path.insert(0, '/verif'); import g3dsa.check\"" % PY,
        "hooks": {
            "guard": "GEOMETRY3D_VERIF",
            "enable": "no hooks: the analyser only parses /repo's source; nothing in /repo is instrumented",
            "baseline_off_cmd": "cd /repo && /venv/bin/python -m pytest -ra -q -p no:cacheprovider --timeout=900 --continue-on-collection-errors",
            "source_commits": [],
            "add_only": True,
        },
        "engines": [
            {
                "name": "g3dsa",
                "path": "/verif/g3dsa",
                "serves_properties": [c["property_id"] for c in checks],
                "kind_free_text": "repository-specific static analyser over Python ast: program model, type-set "
                                  "inference, statement CFGs, effect/ownership summaries, expression algebra",
            }
        ],
        "checks": checks,
        "notes": "All verdicts are computed from /repo's current source without importing or running it. "
                 "exit 2 + ANALYSIS-ERROR means the analyser could not decide (fail closed). See DESIGN.md.",
        "not_applicable": na,
    }
    with open(os.path.join(HERE, "MANIFEST.json"), "w") as f:
        json.dump(m, f, indent=1)
    print("wrote MANIFEST.json with %d checks, %d not_applicable" % (len(checks), len(na)))


if __name__ == "__main__":
    sys.exit(main())
