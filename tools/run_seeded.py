#!/usr/bin/env python3
"""Run the checks against the seeded breaking changes under /verif/seeded/<id>/.

For every seeded change a scratch copy of /repo's current package is made (outside
/repo and /verif), patch.diff is applied to the copy, the checks are run on it and
the copy is removed.  Prints which check reports which change.  /repo is never
touched.   usage: tools/run_seeded.py [ids...] [--all-props]
"""
import json
import os
import shutil
import subprocess
import sys

HERE = os.path.dirname(os.path.dirname(os.path.abspath(__file__)))
sys.path.insert(0, HERE)
sys.setrecursionlimit(20000)

from g3dsa.check import PROPS, run_property  # noqa: E402
from g3dsa.model import AnalysisError  # noqa: E402
from g3dsa.selftest import make_scratch  # noqa: E402


def main(argv):
    all_props = "--all-props" in argv
    ids = [a for a in argv if not a.startswith("--")]
    root = os.path.join(HERE, "seeded")
    repo = os.environ.get("G3DSA_REPO", "/repo")
    base = {}
    rows = []
    for sid in sorted(os.listdir(root)):
        d = os.path.join(root, sid)
        if ids and sid not in ids:
            continue
        if not os.path.isfile(os.path.join(d, "patch.diff")):
            continue
        meta = json.load(open(os.path.join(d, "meta.json")))
        scratch = make_scratch(repo)
        try:
            r = subprocess.run(["patch", "-p1", "-s", "-d", scratch, "-i", os.path.join(d, "patch.diff")],
                               capture_output=True, text=True)
            if r.returncode != 0:
                rows.append((sid, meta["property"], "PATCH DOES NOT APPLY: " + (r.stdout + r.stderr).strip()[:200]))
                continue
            neutral = meta.get("kind") == "neutral"
            props = PROPS if (all_props or neutral) else [meta["property"]] + [p for p in meta.get("also_check", [])]
            hits = []
            for p in props:
                if p not in PROPS:
                    hits.append("%s: not claimed" % p)
                    continue
                if p not in base:
                    base[p] = run_property(p, repo).finding_keys()
                try:
                    res = run_property(p, scratch)
                    new = [f for f in res.findings if f.key() not in base[p]]
                    if new:
                        hits.append("%s: %s %s -- %s" % (p, new[0].rule, new[0].function, new[0].message[:140]))
                    elif not all_props and not neutral:
                        hits.append("%s: silent" % p)
                except AnalysisError as e:
                    hits.append("%s: ANALYSIS-ERROR %s" % (p, str(e)[:140]))
            rows.append((sid, meta["property"] or "-", " | ".join(hits) if hits else "silent (all %d checks)" % len(props)))
        finally:
            shutil.rmtree(scratch, ignore_errors=True)
    for sid, p, h in rows:
        print("%-28s %-4s %s" % (sid, p, h))
    return 0


if __name__ == "__main__":
    sys.exit(main(sys.argv[1:]))
