#!/bin/bash
# usage: confirm_seed.sh <worktree>   -- confirms a seeded change in a scratch worktree of /repo
W=$1
cd $W || exit 2
git diff --quiet -- Geometry3D && { echo "no change in $W"; exit 2; }
echo "== tests with change"; PYTHONPATH=$W /venv/bin/python -m pytest -q -p no:cacheprovider 2>&1 | tail -1
echo "== demo with change"; PYTHONPATH=$W /venv/bin/python demo.py > /tmp/demo_with.out 2>&1; echo "exit $?"; tail -2 /tmp/demo_with.out
git stash -q
echo "== demo without change"; PYTHONPATH=$W /venv/bin/python demo.py > /tmp/demo_without.out 2>&1; echo "exit $?"; tail -1 /tmp/demo_without.out
git stash pop -q
git diff -- Geometry3D > patch.diff
git diff --stat -- Geometry3D | tail -1
