#!/bin/bash
# usage: all_checks_on.sh <tree>  -- runs the 16 quick checks against a scratch tree; prints exit code + first finding per check
T=$1
cd /verif
mkdir -p /tmp/ev
mkdir -p /tmp/ev
for p in C01 C02 C03 C04 C05 C06 C07 C08 C10 C11 C12 C14 C15 C18 C19 C20; do
  /venv/bin/python -m g3dsa.check $p --repo $T --evidence-dir /tmp/ev > /tmp/ev/all_$p.out 2>&1; rc=$?
  if [ $rc -ne 0 ]; then
    echo "$p exit=$rc: $(grep -m2 -E 'R[0-9]+\.[0-9]+ |ANALYSIS-ERROR' /tmp/ev/all_$p.out | cut -c1-260 | tr '\n' ' ')"
  fi
done
echo "-- done $T"
