#!/bin/bash
# usage: confirm_hidden.sh <worktree>  -- a "refactor + hidden break" worktree: full commit applied; neutral_part.diff + patch.diff + demo.py present
W=$1; cd $W || exit 2
t=$(PYTHONPATH=$W /venv/bin/python -m pytest -q -p no:cacheprovider 2>&1 | tail -1)
PYTHONPATH=$W /venv/bin/python demo.py >/dev/null 2>&1; full=$?
git apply -R patch.diff && git apply neutral_part.diff
t2=$(PYTHONPATH=$W /venv/bin/python -m pytest -q -p no:cacheprovider 2>&1 | tail -1)
PYTHONPATH=$W /venv/bin/python demo.py >/dev/null 2>&1; neu=$?
echo "== checks on the NEUTRAL part"; bash /verif/tools/all_checks_on.sh $W 2>&1 | grep -v "^-- done" | cut -c1-300
git apply -R neutral_part.diff
PYTHONPATH=$W /venv/bin/python demo.py >/dev/null 2>&1; orig=$?
git apply patch.diff
echo "tests full: $t | tests neutral: $t2 | demo full=$full neutral=$neu original=$orig"
echo "== checks on the FULL commit"; bash /verif/tools/all_checks_on.sh $W 2>&1 | grep -v "^-- done" | cut -c1-300
